"""Per-property configuration of the checks (budgets, class floors, evidence rule text)."""

CHECKS = {}


def add(id, test, rule, quick, thorough, floors=None, race=False, level="exploration", assumptions=None, coverage_extra=None):
    CHECKS[id] = {"id": id, "test": test, "rule": rule, "quick": quick, "thorough": thorough, "floors": floors or {},
                  "race": race, "level": level, "assumptions": assumptions or [], "coverage_extra": coverage_extra or {}}


add("C19", "TestC19",
    rule=("Cases: an instant assembled from separately drawn year (mixture: uniform 1..9999, special years around the "
          "int64-nanosecond limits 1677/1678, 2262/2263, 1970, 2038, 9999; modern years), day and second, or a zone's DST "
          "transition +-3h; a source zone form (none, Z, +-hh, +-hhmm, +-hh:mm, -Area/City), fromTZ/toTZ from the loadable "
          "IANA zones, a date layout x time layout (0-9 fraction digits, AM/PM variants) rendered by an own fmt.Sprintf "
          "formatter, one of the four functions (or a round trip, the empty input, an unparsable mutation). Non-trivial: the "
          "instant lies outside 1970-2038 or within 48h of a DST transition of a non-UTC zone used by the case; distinct by "
          "SHA-256 of the serialised case."),
    quick={"checks": 60000, "shards": 1, "timeout": 300},
    thorough={"checks": 500000, "shards": 16, "timeout": 1500},
    floors={"outside-1678-2262": 0.20, "nontrivial": 0.3, "func=0": 0.15, "func=2": 0.08, "func=4": 0.08, "srcform=5": 0.1},
    assumptions=["Go's time package (zone database, calendar arithmetic) is the reference for instants and zone offsets",
                 "two-digit-year layout mm/dd/yy is not generated (cannot express the 1..9999 range)",
                 "sub-second digits may be cut or rounded to the RFC3339 second; LMT second-offsets are compared to the minute"])

# ---------------------------------------------------------------------------------------------------
# MANIFEST texts (tools/gen_manifest.py)
META = {}
NOT_BUILT = {}

META["C19"] = {
    "technique": "property-based testing against calendar arithmetic (own formatter / own RFC3339 reader)",
    "design_ref": "DESIGN.md §5 C19",
    "level_text": ("Generated-input search: tens of thousands (quick) to millions (thorough) of (instant, layout, zone form, fromTZ, toTZ, "
                   "function) cases over years 1..9999, every smart-parser layout family and all loadable IANA zones, each compared with "
                   "Go's time arithmetic on the generated instant. Exploration, not proof: instants are sampled, biased to DST "
                   "transitions and the int64-nanosecond limits."),
    "level_note": ("Trusted: Go's time package and the system zone database as reference; inputs are rendered by fmt.Sprintf, outputs read by "
                   "an own RFC3339 parser. Not claimed: two-digit-year layout, zone abbreviations (PST), rounding rule of sub-second digits."),
}
