"""Per-property configuration of the checks (budgets, class floors, evidence rule text)."""

CHECKS = {}


def add(id, test, rule, quick, thorough, floors=None, race=False, level="exploration", assumptions=None, coverage_extra=None,
        note_current=False):
    CHECKS[id] = {"id": id, "test": test, "rule": rule, "quick": quick, "thorough": thorough, "floors": floors or {},
                  # every check keeps the case in progress on disk: a dying process still yields a replay
                  "race": race, "note_current": True, "level": level, "assumptions": assumptions or [], "coverage_extra": coverage_extra or {}}


add("C19", "TestC19",
    rule=("Cases: an instant assembled from separately drawn year (mixture: uniform 1..9999, special years around the "
          "int64-nanosecond limits 1677/1678, 2262/2263, 1970, 2038, 9999; modern years), day and second, or a zone's DST "
          "transition +-3h; a source zone form (none, Z, +-hh, +-hhmm, +-hh:mm, -Area/City), fromTZ/toTZ from the loadable "
          "IANA zones, a date layout x time layout (0-9 fraction digits, AM/PM variants) rendered by an own fmt.Sprintf "
          "formatter, one of the four functions (or a round trip, the empty input, an unparsable mutation). Non-trivial: the "
          "instant lies outside 1970-2038 or within 48h of a DST transition of a non-UTC zone used by the case; distinct by "
          "SHA-256 of the serialised case. Unit SECOND is also asked for instants inside a second (floor). Unparsable epoch texts (beyond int64, NaN, Inf, 12a, hex float) must be errors."),
    quick={"checks": 60000, "shards": 1, "timeout": 300},
    thorough={"checks": 500000, "shards": 16, "timeout": 1500},
    floors={"outside-1678-2262": 0.20, "nontrivial": 0.3, "func=0": 0.15, "func=2": 0.08, "func=4": 0.08, "srcform=5": 0.1},
    assumptions=["Go's time package (zone database, calendar arithmetic) is the reference for instants and zone offsets",
                 "two-digit-year layout mm/dd/yy is not generated (cannot express the 1..9999 range)",
                 "sub-second digits may be cut or rounded to the RFC3339 second; LMT second-offsets are compared to the minute"])

# ---------------------------------------------------------------------------------------------------
# MANIFEST texts (tools/gen_manifest.py)
META = {}
NOT_BUILT = {}

META["C19"] = {
    "technique": "property-based testing against calendar arithmetic (own formatter / own RFC3339 reader)",
    "design_ref": "DESIGN.md §5 C19",
    "level_text": ("Generated-input search: tens of thousands (quick) to millions (thorough) of (instant, layout, zone form, fromTZ, toTZ, "
                   "function) cases over years 1..9999, every smart-parser layout family and all loadable IANA zones, each compared with "
                   "Go's time arithmetic on the generated instant. Exploration, not proof: instants are sampled, biased to DST "
                   "transitions and the int64-nanosecond limits."),
    "level_note": ("Trusted: Go's time package and the system zone database as reference; inputs are rendered by fmt.Sprintf, outputs read by "
                   "an own RFC3339 parser. Not claimed: two-digit-year layout, zone abbreviations (PST), rounding rule of sub-second digits."),
}

add("C09", "TestC09",
    rule=("Cases: gen.Shape (7 formats x 3 layout variants x 3 transform flavours, 3 encodings, optional BOM) with 0-6 generated records "
          "(values biased to the format's delimiters/quotes/escapes and multi-byte runes), optionally malformed (truncate / overwrite / "
          "insert), and 3-5 delivery schedules (1 byte, random 1..17, around 127/128/129 and 4095/4096/4097, forced cuts inside multi-byte "
          "runes, CRLF pairs, escape pairs, multi-byte delimiters and the BOM, runs of <=3 (0,nil) reads, data returned with io.EOF). "
          "Oracle: the transcript (records, error classes and texts, checksums) under each schedule equals the single-chunk transcript. "
          "Non-trivial: >= 2 results before the terminal one and a schedule with a forced cut inside one of those byte pairs; distinct by "
          "SHA-256 of the serialised case. About 12 % of the cases take one of the repository's own sample schemas with (the first 4 KiB of) its sample input as subject instead of a generated shape (class repo-sample). One case in eight (not the fixed-length formats) stretches one value to 3400-8400 bytes, a token longer than the 4096-byte buffers of bufio and of the decoders, so that consumers ask the source for >= 4096 bytes at once (class token>=3400)."),
    quick={"checks": 2500, "shards": 4, "timeout": 600},
    thorough={"checks": 20000, "shards": 16, "timeout": 3000, "fuzz": [{"target": "FuzzC09", "time": 180}]},
    floors={"token>=3400": 0.03, "repo-sample": 0.04, "cut=rune": 0.10, "cut=crlf": 0.10, "cut=escape": 0.10, "cut=bom": 0.10, "malformed": 0.10, "zero-reads": 0.2},
    assumptions=["runs of (0,nil) reads are capped at 3 (bufio legitimately gives up with ErrNoProgress after 100)",
                 "for the json format the digits after 'line ' in error texts are masked (documented as a rough number that depends on decoder pre-fetch)"])

add("C16", "TestC16", level="fault_enumeration",
    rule=("Cases: gen.Shape input (all 7 formats) with 0-5 records and a chunk schedule; for each input EVERY fault position p in "
          "0..len(input) is enumerated (the reader delivers p bytes, then a non-EOF error: persistently, or once, then `resume` more bytes, "
          "then forever). The error value is the harness' own or one real readers produce (io.ErrUnexpectedEOF, io.ErrClosedPipe, "
          "io.ErrNoProgress, os.ErrDeadlineExceeded, context.Canceled, a net.Error-like timeout, a wrapped ErrUnexpectedEOF, *os.PathError) and "
          "the failing reader is handed over as is or inside *bufio.Reader (default / 16-byte buffer), io.MultiReader or io.LimitReader. "
          "Oracle: a terminal result within N+3 Reads (N = length of the fault-free transcript), repeated unchanged by two "
          "further Reads; all earlier results except possibly the last equal the fault-free results (kind, JSON, checksum). "
          "evaluations counts inputs; counters.fault_positions counts transform runs. Every faulty run has 60 s to come back (nothing can legitimately wait: in-memory reader, millisecond runs). Non-trivial: input with >= 2 results and > 2 bytes "
          "(so faults fall strictly inside); distinct by SHA-256 of the serialised case. exhaustive per input, not globally. About 12 % of the cases take one of the repository's own sample schemas with (the first 4 KiB of) its sample input as subject instead of a generated shape (class repo-sample). A quarter of the generated subjects are declaration hierarchies as in C05 (edi / csv2 / fixedlength2 with groups, rows-based and header/footer records, min/max; class hierarchy)."),
    quick={"checks": 600, "shards": 4, "timeout": 600},
    thorough={"checks": 6000, "shards": 16, "timeout": 3000},
    floors={"hierarchy": 0.08, "repo-sample": 0.04, "transient": 0.3, "format=csv": 0.05, "format=edi": 0.05, "format=xml": 0.05, "format=json": 0.05,
            "format=fixed-length": 0.05, "format=fixedlength2": 0.05, "format=csv2": 0.05, "std-error-value": 0.2, "bufio-reader": 0.1},
    assumptions=["a run in which the transform never reads as far as the fault must equal the fault-free run; once the fault was reached, a clean "
                 "io.EOF is NOT accepted as terminal result (the failure would be swallowed and the rest of the input silently missing)"],
    coverage_extra={"exhaustive_per_input": True})

META["C09"] = {
    "technique": "metamorphic property-based testing (chunked delivery vs single chunk)",
    "design_ref": "DESIGN.md §5 C09",
    "level_text": ("Generated-input search over (format, schema, input, delivery schedule): every schedule must reproduce the single-chunk "
                   "transcript byte for byte. Schedules are constructed to cut inside multi-byte runes, CRLF, escape pairs, delimiters and "
                   "the BOM; exploration only - boundaries are sampled, not enumerated."),
    "level_note": "Trusted: the harness' chunking reader; inputs <= a few KB so buffer roll-over is reached through small chunks rather than large inputs.",
}
META["C16"] = {
    "technique": "fault-position enumeration over generated inputs (metamorphic vs fault-free run)",
    "design_ref": "DESIGN.md §5 C16",
    "level_text": ("For each generated input every byte offset is tried as the position of a persistent or transient-then-persistent read "
                   "error; the transform must reach a sticky terminal result within N+3 Reads and must not corrupt earlier results. "
                   "Exhaustive per input over fault positions, sampled over inputs/schemas."),
    "level_note": "Trusted: the fault-injecting reader of the harness.",
}

add("C10", "TestC10",
    rule=("Cases: gen.Shape (7 formats, record-relative transforms only: pass-through / templates+custom funcs / javascript) with 0-8 "
          "records (normal, failing int cast, filtered), a split point, a permutation and a replacement record that fails in one of "
          "three ways (type cast, two xpath matches [xml], custom function error [javascript throw]). Oracle: out(r1..rn) = "
          "out(r1)++...++out(rn) (single-record runs), out(A++B) = out(A)++out(B), out(perm R) = perm out(R), replacement changes exactly "
          "that position into a per-record failure; compared on (kind, JSON, checksum). Non-trivial: a split between differently sized "
          "records, a permutation that moves a record, or a failing replacement not in last position; distinct by SHA-256 of the case. A third of the cases contain a near-duplicate pair: a copy of a record, right after it, that differs in one value only (for XML shapes possibly an attribute of a text-only element). XML shapes may give their records two different element names with a wildcard as last step of the target xpath. The old fixed-length by_rows layout may recognise a record's first row by 'A' or a blank in column 1; records whose first-row values are all empty then have a white-space-only first row (class first-row-all-blank)."),
    quick={"checks": 1500, "shards": 4, "timeout": 600},
    thorough={"checks": 10000, "shards": 16, "timeout": 3000},
    floors={"first-row-all-blank": 0.002, "permuted": 0.4, "bad-not-last": 0.15, "bad-kind=1": 0.1, "bad-kind=2": 0.01, "bad-kind=3": 0.02, "xform=2": 0.15},
    assumptions=["schemas address only the record's own data (no '..' / absolute xpaths), as the property's quantifier requires"])

add("C15", "TestC15",
    rule=("Cases: gen.Shape schema + 0-6 records; history of 0-5 other generated transforms (same or different schema) run in between; "
          "one third of the cases are also run in a fresh process (the test binary re-executes itself); one leaf value (column or "
          "sub-record value) of one record is modified. Oracle: byte-identical Read output, error text and checksums for first run / "
          "run after the other transforms / fresh process; equal raw records <=> equal checksums on the observed set; the modified "
          "record's checksum changes and no other record's does. Non-trivial: >= 2 records, output object with >= 3 keys and >= 1 other "
          "transform before the measured one; distinct by SHA-256 of the case. About 12 % of the cases take one of the repository's own sample schemas with (the first 4 KiB of) its sample input as subject instead of a generated shape (class repo-sample). History steps also include: the process builds an Extension the documented way (customfuncs.Merge of the common, the omni.2.1 and own functions that shadow builtins) and runs a transform through it; one transformctx.Ctx value handed to the other transforms and to the second measured run (each under its own input name). XML shapes may write the last column as an attribute of the text-only element c0 (read with c0/@a); the leaf mutation then often changes that attribute (open finding C15-F1: the checksum does not see it). Typed externals (int, boolean; one as a javascript argument) are part of the externals flavour. A third of the generated schemas add fields computed by epochToDateTimeRFC3339, dateTimeToRFC3339 and dateTimeToEpoch WITHOUT a time zone argument, and the fresh process runs with TZ=Asia/Tokyo (another local zone than this process, if the host has the zone database): the host's local zone is not among the things a result may depend on."),
    quick={"checks": 250, "shards": 4, "timeout": 600},
    thorough={"checks": 3000, "shards": 16, "timeout": 3000},
    floors={"zoneless-datetime-calls+fresh-process-in-another-zone": 0.04, "own-extension-in-history": 0.1, "ctx-value-reused": 0.15, "repo-sample": 0.04, "warmed": 0.5, "fresh-process": 0.2, "leaf-mutation": 0.2},
    assumptions=["'now' and random scripts are never generated (excluded by the property)",
                 "leaf mutations are restricted to declared columns / elements, which the raw record is documented to carry"])

add("C17", "TestC17",
    rule=("Cases: gen.Shape (7 formats) with a pool of 1-5 records (incl. candidates rejected by the FINAL_OUTPUT filter and failing "
          "records) cycled k times, k from {50..400} mostly, 2000 (8%), 20000 (2%); optional insignificant separators between records "
          "(blank lines / whitespace). Oracle: size(i) = node count of the whole tree reachable via Parent links from the i-th delivered "
          "record; max size <= max over the first 8 deliveries + one record; the 2k-record input shows the same maximum as the k-record "
          "input. Live-heap arm (14% of cases; xml shapes there mostly with namespace declarations on the record elements, fixedlength2 shapes "
          "half of the time multi-row): the pool cycled 5k times (k 1000-2500), live heap (runtime.MemStats.HeapAlloc after two forced "
          "collections) sampled every k Reads and after the terminal result with the Transform still alive. Violation: growth between the "
          "first and the last sample > 64 KiB AND > 21 KiB in each half of the samples (a retention per record grows in both halves - 16 "
          "bytes per record suffice at k=1000 -, a cache filling up shows in one; the unchanged code stays under 16 KiB per case, see "
          "counters.heap_arm_growth_bytes / heap_arm_growth_over_16KiB). "
          "Non-trivial: >= 50 delivered records with filtered-out candidates between deliveries (tree arms), >= 1000 delivered records "
          "(heap arm); distinct by SHA-256 of the case. XML shapes take a positional predicate ([position() <= 1000000], true for every candidate) instead of the value filter in a quarter of the cases; JSON shapes of the heap arm write their records as properties of one object under distinct names half of the time. csv2 / fixedlength2 shapes may wrap their declarations in one repeatable group whose first member is the target."),
    quick={"checks": 150, "shards": 4, "timeout": 900},
    thorough={"checks": 1500, "shards": 16, "timeout": 3300},
    floors={"filtered-candidates": 0.25, "sep=1": 0.3, "k>=2000": 0.015, "arm=live-heap": 0.08},
    assumptions=["tree arms: only the size of the reachable node tree is a verdict",
                 "live-heap arm: one rapid goroutine per process, nothing else allocates between the samples; the slack (64 KiB in total and "
                 "21 KiB in each half) is 4x above the largest growth ever measured on the unchanged code (< 16 KiB per case over ~700 cases)"])

add("C18", "TestC18",
    rule=("Cases: gen.Shape input (7 formats) whose field values carry code points 0x80..0xFF (biased to 0x80-0x9F and the five bytes "
          "unassigned in windows-1252), written as one byte per code point; encoding iso-8859-1 / windows-1252 / utf-8 (with optional "
          "BOM); delivered in one chunk or byte by byte. Oracle: transcript(bytes, encoding X) = transcript(code page table applied to "
          "the bytes, utf-8) with the tables hard-coded in the harness (unassigned cp1252 bytes: U+FFFD); "
          "utf-8: omitted encoding = utf-8, leading BOM changes nothing and never appears in output. Non-trivial: the input has a byte "
          ">= 0x80 (or a BOM) and >= 1 record is delivered; distinct by SHA-256 of the case. A third of the XML inputs start with an XML declaration carrying its own encoding label (ISO-8859-1, windows-1252, latin1, UTF-8, utf8, us-ascii), applied by the xml decoder on both sides of the relation. A sixth of the single-byte cases inject only character groups whose bytes form well-formed UTF-8 (C3 A9, E2 82 AC ...). The five unassigned windows-1252 bytes must convert to U+FFFD. Every utf-8 case with a BOM is also run with an overlapping opening: the source's first Read (NewTransform waits in it for the first bytes) opens and reads to its end a second transform of the same Schema over the same bytes before it delivers anything (class bom+overlapping-open)."),
    quick={"checks": 1500, "shards": 4, "timeout": 600},
    thorough={"checks": 12000, "shards": 16, "timeout": 3000},
    floors={"enc=iso-8859-1": 0.25, "enc=windows-1252": 0.25, "enc=utf-8": 0.2, "bytes-80-9F": 0.4, "bom": 0.08, "bom+overlapping-open": 0.05},
    assumptions=["structural bytes of every format are ASCII; only field values carry high bytes"])

META["C10"] = {
    "technique": "metamorphic property-based testing (concatenation / permutation / replacement of records)",
    "design_ref": "DESIGN.md §5 C10",
    "level_text": ("Generated record sequences for all seven formats; the whole-input transcript must equal the concatenation of the "
                   "single-record transcripts (which implies the concatenation and permutation laws, also checked explicitly), and a "
                   "failing replacement must change exactly its own position. Exploration over sampled schemas/records."),
    "level_note": "Trusted: the harness' renderers (records rendered under the same wrapper). Error texts are not compared (positions differ by construction).",
}
META["C15"] = {
    "technique": "metamorphic property-based testing (repeat / warmed process / fresh process) + checksum injectivity on leaf mutations",
    "design_ref": "DESIGN.md §5 C15",
    "level_text": ("Byte-identical results and checksums across repetition, after other transforms filled pools/caches and advanced IDs, "
                   "and in a freshly started process (sampled: each costs a process start); checksum equality/inequality on equal / "
                   "one-leaf-different raw records. Exploration."),
    "level_note": "Trusted: nothing beyond the harness' renderers. Fresh-process comparison is sampled (one third of the cases).",
}
META["C17"] = {
    "technique": "metamorphic property-based testing (k vs 2k records) + validity bound on the reachable tree size + live-heap growth bound",
    "design_ref": "DESIGN.md §5 C17",
    "level_text": ("For generated record pools repeated k and 2k times the size of the node tree reachable from every delivered record "
                   "is measured; it must stay under a bound fixed by the first deliveries and must not depend on k. Boundedness is "
                   "checked up to 40 000 records per run in sampled cases; a leak starting later is out of reach. A second arm bounds the growth of "
                   "the live heap between k and 5k records (retention outside the node tree, e.g. per-record cache entries)."),
    "level_note": "Trusted: Parent/child links as the notion of 'retained' in the tree arms (C12 audits the links); runtime.MemStats after forced collections in the heap arm.",
}
META["C18"] = {
    "technique": "metamorphic property-based testing against hard-coded code pages",
    "design_ref": "DESIGN.md §5 C18",
    "level_text": ("Generated single-byte inputs over all byte values for every format; declared-encoding runs must equal runs on the "
                   "input pre-converted with the harness' own ISO-8859-1 / CP1252 tables; BOM transparency for utf-8. Exploration."),
    "level_note": "Trusted: the hard-coded CP1252 table (from CP1252.TXT). The five unassigned bytes convert to U+FFFD (the Go text packages' table).",
}

add("C01", "TestC01",
    rule=("Cases: a transform over (a) one of the 7 built-in formats with well-formed, truncated, overwritten or spliced input "
          "(gen.Shape + malform), (b) a caller-supplied schema handler registered through omniparser.Extension whose ingester replays a "
          "generated script of results (record, continuable error, fatal error, io.EOF, bytes together with an error), (c) the jsonlog "
          "sample custom file format; plus a generated history of Read / RawRecord / RawRecord-twice / burst-of-Reads calls that runs "
          "well past the terminal result. Oracle: contract automaton (fresh, ok, failed(e), terminal(e)) - trichotomy of every Read result, "
          "valid UTF-8 JSON, terminal error repeated unchanged, RawRecord gated on the last Read and describing that record (checked on "
          "pass-through schemas and the scripted handler). Non-trivial: the history has a Read after the terminal result or a RawRecord "
          "directly after a failed Read; distinct by SHA-256 of the case."),
    quick={"checks": 3000, "shards": 4, "timeout": 600},
    thorough={"checks": 30000, "shards": 16, "timeout": 3000, "fuzz": [{"target": "FuzzC01", "time": 120}]},
    floors={"terminal-non-eof": 0.15, "read-after-terminal": 0.5, "raw-after-fail": 0.05, "mode=scripted": 0.15, "mode=jsonlog": 0.04,
            "format=csv": 0.05, "format=csv2": 0.05, "format=edi": 0.04, "format=fixed-length": 0.05, "format=fixedlength2": 0.05,
            "format=json": 0.04, "format=xml": 0.05},
    assumptions=["which malformed inputs are fatal and which are per-record failures is format policy and not judged here",
                 "a caller-supplied ingester that returns (nil, nil, nil) or invalid JSON is outside the contract and not generated"])

META["C01"] = {
    "technique": "stateful property-based testing against a contract automaton (scripted handler + real readers)",
    "design_ref": "DESIGN.md §5 C01",
    "level_text": ("Generated call histories over generated (often malformed) inputs for all seven formats, a scripted caller-supplied "
                   "handler and the jsonlog custom format; every result is judged by a four-state automaton written from the interface "
                   "documentation. Exploration: histories and inputs are sampled."),
    "level_note": "Trusted: errs.IsErrTransformFailed as the classifier named by the property; error identity compared with == for comparable errors, type+text otherwise.",
}

add("C13", "TestC13",
    rule=("Cases: (a) gen.Shape schemas biased to the cache-sensitive transform flavour (textually identical declarations at several "
          "positions, shared templates at two cursors, xpath_dynamic, javascript and javascript_with_context on the record and on its "
          "parent) with 1-6 records, (b) a nested-same-name XML trap (<a>X<a>Y</a></a>) with the declaration {xpath:a} as array child and "
          "as object child on one node. Each case runs under: everything enabled (reference), node pool off, per-record result cache off "
          "(replica of ingester.Read using the hook constructor, first checked equal to Transform.Read), xpath expression cache capacity 1 / "
          "emptied per record, javascript caching disabled, program cache capacity 1, node-JSON cache capacity 1 / emptied per record, "
          "everything off, caches left warm by an earlier transform. Oracle: identical transcripts (kind, JSON). Non-trivial: >= 2 "
          "records and a non-pass-through transform; distinct by SHA-256 of the case. About 12 % of the cases take one of the repository's own sample schemas with (the first 4 KiB of) its sample input as subject instead of a generated shape (class repo-sample)."),
    quick={"checks": 250, "shards": 4, "timeout": 900},
    thorough={"checks": 4000, "shards": 16, "timeout": 3300},
    floors={"repo-sample": 0.04, "xform=3": 0.3, "mode=trap": 0.1, "warmed": 0.3},
    assumptions=["uses the build-tag 'verif' hooks in /repo (idr.VerifSetNodeCaching, customfuncs.VerifSetDisableCaching/VerifResetCaches, "
                 "transform.VerifNewParseCtxNoCache); caches.XPathExprCache, JSProgramCache and NodeToJSONCache are exported and swapped directly"])

META["C13"] = {
    "technique": "metamorphic property-based testing over cache/pool configurations (hooks under build tag verif)",
    "design_ref": "DESIGN.md §5 C13",
    "level_text": ("Every generated schema/input is run under eleven cache and pool configurations and must give identical transcripts. "
                   "Generators aim at key collisions (identical declaration text at different positions, nested same-name nodes, changing "
                   "ancestors). Exploration."),
    "level_note": ("Trusted: the replica of ingester.Read used for the result-cache-off runs (checked equal to Transform.Read under the default "
                   "configuration in every case). Process-global switches: one case at a time per process."),
}

add("C14", "TestC14", race=True,
    rule=("Cases (rounds): 2-4 generated (schema, input) entries over all formats and transform flavours (incl. javascript and "
          "javascript_with_context), 2-16 goroutines each driving its own Transform over the SHARED Schema object of its entry (entry 0 "
          "always shared by >= 2 goroutines), 1-3 repeats, GOMAXPROCS in {1,2,16}, generated runtime.Gosched jitter at Read granularity; "
          "test binary built with -race (GORACE=halt_on_error=1: a report ends the run and the round in progress is the replay). "
          "Oracle: every goroutine's transcript (bytes, errors, checksums) equals the serial transcript of the same (schema, input); no "
          "race report. Non-trivial: >= 2 different schemas run at once with one Schema shared by >= 2 goroutines; distinct by SHA-256. About 12 % of the cases take one of the repository's own sample schemas with (the first 4 KiB of) its sample input as subject instead of a generated shape (class repo-sample). A sixth of the generated entries use the externals flavour; even and odd goroutines then pass different external properties, and every serial reference comes from a Schema object of its own."),
    quick={"checks": 100, "shards": 4, "timeout": 900, "gomaxprocs": 16},
    thorough={"checks": 1500, "shards": 16, "timeout": 3300, "gomaxprocs": 16},
    floors={"repo-sample": 0.04, "javascript": 0.3, "goroutines=16": 0.1, "maxprocs=1": 0.15},
    assumptions=["the Go scheduler owns the interleavings; the harness only perturbs them (Gosched jitter, GOMAXPROCS)",
                 "a race that needs a rare window may go unseen: the claim is no report and no cross-talk over the rounds run"])

META["C14"] = {
    "technique": "concurrent differential testing (per-goroutine transcript vs serial) under the Go race detector",
    "design_ref": "DESIGN.md §5 C14, §7",
    "level_text": ("Generated mixes of concurrent transforms over shared and distinct Schemas under -race; each goroutine must see exactly "
                   "its serial results and the race detector must stay silent. Exploration of schedules the Go runtime happens to "
                   "produce under perturbation - not an enumeration of interleavings."),
    "level_note": "Trusted: Go's race detector. Limits stated in DESIGN §7: no control over the scheduler.",
}

add("C03", "TestC03", note_current=True,
    rule=("Cases: a valid schema (one of the repo's 23 sample schemas <= 20 KB, or a gen.Shape schema incl. the javascript and "
          "cache-sensitive flavours) with 0-4 JSON-tree mutations (delete / null / number incl. 2^31, 2^63, 9.3e18, 1e30, 1.5 / string / "
          "[] / {} / subtree copy / duplication / type-aware replacement of min,max,rows,index,start_pos,..., type, delimiters incl. quote, "
          "CR, LF, U+FFFD, multi-rune, xpath, regex, custom_func name and args, template names, file_format_type, encoding / template "
          "cycle), and an input: the matching one, malformed (truncate / overwrite / insert hostile tokens), another sample's input, two "
          "copies, binary noise, a 70 KB line, empty. Monitors: recover() around NewSchema, NewTransform, every Read, RawRecord and "
          "Checksum; per-case watchdog (20 s wall AND >= 10 s process CPU => hang; otherwise inconclusive); a finite input of n bytes "
          "must reach a terminal result within 2n+64 Reads. Non-trivial: NewSchema accepted a mutated schema, or the input is not the "
          "matching one and at least one Read ran; distinct by SHA-256 of the case. Mutation op 12 edits one record/envelope/segment declaration (second is_target, deleted name, max 0, min 0 max 0, max 1). Input kind 7 puts the matching input behind another prolog (XML declarations with encoding labels and versions, DTD, byte-order marks); argument lists may get a surplus argument without a value."),
    quick={"checks": 5000, "shards": 8, "timeout": 900},
    thorough={"checks": 60000, "shards": 16, "timeout": 3300, "fuzz": [{"target": "FuzzC03", "time": 240}]},
    floors={"accepted-mutant": 0.12, "malformed-input": 0.25, "base=sample": 0.3, "base=shape": 0.3},
    assumptions=["scripts that loop are outside the claim: only the samples' scripts and the harness' terminating scripts occur; mutations "
                 "never synthesise script text", "this never establishes the absence of crashing inputs"])

add("C11", "TestC11",
    rule=("Cases: an XML document (1 root, <= 45 nodes, depth <= 7, names a/b/c/r, attributes k/m/n, prefixes p/q plus a default "
          "namespace in 60% of documents, mixed text and CDATA; no comments, PIs, XML declaration or xml: attributes), an expression "
          "drawn from the antchfx/xpath 1.1.11 grammar (12 axes, name / * / p:* / text() / node() tests, positional, value and function "
          "predicates, unions, filter expressions, absolute paths inside predicates; of up to 24 candidates the first that selects "
          "something on the reference is kept), a context node (document 52%, inner element or text node 48%). One compiled expression "
          "is evaluated by idr.QueryIter over the stream reader's tree, by antchfx/xmlquery (normalised) and by a second reference "
          "navigator; results compared as lists of (address, kind, qualified name, string value); MatchAll/MatchAny/MatchSingle must "
          "agree with the iterator. Non-trivial: >= 2 top-level steps, uses an attribute axis, a reverse/sibling axis or a positional "
          "predicate, and selects >= 1 node; distinct by SHA-256 of the case. MatchAll is evaluated with the expression cache off and on (same selection); literals and text values include runs of blanks, a tab and line breaks. One expression in twenty is nothing but an element name or name/name (bare or prefixed); node-sets of the ancestor axes take part in general comparisons."),
    quick={"checks": 25000, "shards": 4, "timeout": 600},
    thorough={"checks": 1000000, "shards": 16, "timeout": 3300},
    floors={"non-empty": 0.5, "attribute-axis": 0.2, "reverse-or-sibling-axis": 0.2, "non-empty+attribute-axis": 0.1,
            "non-empty+reverse-or-sibling-axis": 0.1, "judge=second-reference": 0.01, "prefixed-name": 0.05},
    assumptions=["reference: antchfx/xmlquery v1.3.1 driven by the same compiled expression, with its synthetic declaration node removed and "
                 "CharData retagged as text; where an evaluation touches one of xmlquery's navigator defects (Value() of the document node, "
                 "NamespaceURL() of an attribute, MoveToRoot() from an attribute) a second reference navigator over the same tree judges",
                 "MatchAll is used with DisableXPathCache (expression caching is C13's subject)"])

add("C12", "TestC12", race=True, note_current=True,
    rule=("Cases, three arms: (ops, ~84%) a serialisable list of <= 80 operations root/child/remove/probe over forests of <= 6 trees and "
          "<= 60 nodes (CreateNode, CreateXMLNode, CreateJSONNode, AddChild, RemoveAndReleaseTree on the node itself, its first, last or "
          "middle child, or the root), mirrored in an ordered-tree model; after every step link audit of every live tree, child order = "
          "model order, ID/Type/Data/FormatSpecific of live nodes unchanged, released pointers unreachable, acquired nodes blank, not "
          "live, with a fresh ID; pool probes acquire and release 2-8 nodes. (reader, ~13%) the format reader of a gen.Shape input driven "
          "by hand: audit at delivery, after Release, after the next Read, one more Read after EOF. (conc, ~2.5%) 2/8/32 goroutines "
          "acquiring, linking, auditing and releasing nodes: no node owned twice, IDs pairwise distinct; built with -race. A 'churn' operation "
          "(300 bare acquire/release cycles of one node in 4% of the ops histories; 66 000-270 000 cycles in every history of the extra "
          "test TestC12Churn, which runs on the plain build because sync.Pool drops Puts at random under -race) checks blankness and "
          "that no ID of the history is ever handed out again. Non-trivial: "
          "(ops) a non-root removal followed by an acquisition that returns a pointer released earlier, (reader) >= 2 records and an "
          "observed pool re-use, (conc) always; distinct by SHA-256 of the case. A third arm-let (3 %, kind=jsonvalues) drives the JSON stream reader by hand over several top-level values with root-selecting and child-selecting xpaths and audits every tree it hands out; TestC12Churn also floods the pool (a tree of 1100-33000 nodes released at once, then that many + 500 acquisitions: no node handed out twice). A quarter of the reader cases take a generated declaration hierarchy (edi / csv2 / fixedlength2: groups, nested records, the target anywhere - also on a group) as subject (class reader:hierarchy)."),
    quick={"checks": 2500, "shards": 4, "timeout": 900, "gomaxprocs": 8,
           "extra": [{"test": "TestC12Churn", "checks": 60, "shards": 2, "plain": True}]},
    thorough={"checks": 40000, "shards": 16, "timeout": 3300, "gomaxprocs": 8,
              "extra": [{"test": "TestC12Churn", "checks": 1500, "shards": 8, "plain": True}]},
    floors={"reader:hierarchy": 0.004, "kind=jsonvalues": 0.003, "flood": 0.001, "ops:reuse-after-nonroot-removal": 0.4, "kind=reader": 0.05, "kind=conc": 0.01, "churn>=65536": 0.002},
    assumptions=["ID uniqueness is checked within one case (the check is a pure function of the case); across cases the atomic counter is "
                 "exercised by the concurrent arm under the race detector",
                 "the post-EOF Read goes slightly beyond what Transform does (it never re-reads after a terminal result)"])

META["C03"] = {
    "technique": "structure-aware schema/input mutation fuzzing with recover, watchdog and read-bound monitors",
    "design_ref": "DESIGN.md §5 C03, §7",
    "level_text": ("Generated near-valid and adversarial schemas (JSON-tree mutations of the repo's samples and of generated schemas) crossed "
                   "with valid, malformed, foreign and binary inputs; any panic, non-terminating call or endless result stream is a "
                   "violation. Exploration: counts of accepted mutants and malformed inputs are the evidence; absence is not established."),
    "level_note": ("Trusted: the watchdog's CPU accounting (getrusage) to tell a spinning call from a starved machine. Crashers found so far were "
                   "repaired in /repo (fix: commits) and are replayed as regressions on every run; one dependency crash is a known finding."),
}
META["C11"] = {
    "technique": "differential property-based testing against antchfx/xmlquery (same compiled expression) + second reference navigator",
    "design_ref": "DESIGN.md §5 C11",
    "level_text": ("Grammar-generated XPath expressions over generated XML documents, evaluated from the root and from inner nodes; the "
                   "idr navigator must return the same nodes in the same order with the same string values as the reference DOM binding. "
                   "Exploration (25k-100k cases quick, 16M thorough)."),
    "level_note": ("Trusted: antchfx/xmlquery v1.3.1 after normalisation; its five known navigator quirks are detected per evaluation by a probe "
                   "and such cases are judged by an own ~120-line navigator that is cross-checked against xmlquery whenever the probe is silent."),
}
META["C12"] = {
    "technique": "model-based stateful property-based testing (ordered-tree model + link audit) under the race detector",
    "design_ref": "DESIGN.md §5 C12",
    "level_text": ("Generated create/attach/remove histories mirrored in an abstract ordered-tree model with a full link, ID and pool-aliasing "
                   "audit after every step; the same audit on every tree the seven readers hand out; concurrent acquisitions under -race. "
                   "Exploration."),
    "level_note": "Trusted: pointer identity as the notion of aliasing; sync.Pool may drop nodes (fewer re-uses under -race), which only lowers the non-trivial share.",
}

add("C05", "TestC05", note_current=True,
    rule=("Cases: a declaration hierarchy of <= 7 declarations, depth <= 4, names from {A,B,C,D} (repeated names frequent), groups (also "
          "with a group as first member), min in {0,1,2}, max in {1,2,3,unbounded}, one target at a uniformly drawn node; rendered as edi "
          "segment_declarations, csv2 records or fixedlength2 envelopes (header-regex, header+footer, rows 1-2); a unit sequence that is "
          "mostly a valid-by-construction instance with 0-2 insert/delete/duplicate/swap edits (for EDI sometimes a second top-level "
          "round), in ~10% uniformly random over the names plus an undeclared X (length <= 12); variants: empty input, blank lines, LF or "
          "CRLF, unterminated final unit, several EDI segment delimiters, ignore_crlf. ~6% of cases are deep chains instead: 7-15 nested "
          "declarations (one child per level, letters A-P, some levels groups, min 1) with a valid instance of <= 40 units and 0-1 edits "
          "(the readers' frame stacks start with capacity 10). Every unit carries a unique id that the schema "
          "reads into the delivered tree. Oracle: model.Greedy (recursive greedy non-backtracking matcher incl. the EDI top-level "
          "repetition pinned by the repo's test) - same target trees from RawRecord().Raw(), same count, same terminal kind, same copy() "
          "JSON; EDI tokenizer observed directly. Thorough tier adds TestC05Enum: per drawn hierarchy ALL unit sequences up to length 6 "
          "over its alphabet plus X. Non-trivial: the model makes >= 1 move-on decision and >= 1 repeat; distinct by SHA-256 of the case. Every case is also delivered byte by byte (final byte together with io.EOF): same outcome as the whole input. fixedlength2 hierarchies in 40 % of the cases start every line with 1 or 3 pad characters and write their header/footer/line_pattern regexes without the '^' anchor. One case in ten is a long input (a valid instance repeated to 4-9 KB, blank lines cycled; half of these fixedlength2): line buffers roll over while records are being assembled (class long-input)."),
    quick={"checks": 4000, "shards": 4, "timeout": 900},
    thorough={"checks": 60000, "shards": 16, "timeout": 3300, "extra": [{"test": "TestC05Enum", "checks": 25, "shards": 16}]},
    floors={"long-input": 0.05, "outcome=fatal": 0.30, "target-in-group": 0.20, "format=edi": 0.15, "format=csv2": 0.15, "format=fixedlength2": 0.15,
            "no-final-terminator": 0.08, "blank-lines": 0.10, "empty-input": 0.03, "edi-root-repeats": 0.01,
            "group-first-member-is-group": 0.15, "__nontrivial__": 0.15, "nesting>=10": 0.02},
    assumptions=["max = 0 is excluded (the statement says max in {1,2,...,unbounded}); header/footer regexes are anchored literals",
                 "the EDI top-level declaration list may repeat under a fresh root (pinned by edi/reader_test.go 'multiple root level segments, success')"])

add("C07", "TestC07",
    rule=("Cases: delimiters as 1-3-rune strings drawn without replacement from 22 punctuation and multi-byte runes (segment delimiter "
          "also LF, CRLF, rune+LF, doubled rune; component / repetition delimiters optional; release character one rune in ~80%; "
          "ignore_crlf only when no delimiter contains CR/LF); 1-4 segments of 0-5 elements, or 20-40, or a 100-160-rune value, or a value "
          "> 4096 bytes, split into repetitions and components; with a release character the value alphabet is dominated by delimiter "
          "and release runes; element declarations (index, component_index, default, empty_if_missing, out-of-range, ~1 in 8 a second "
          "declaration on the same element). Oracle: own escaper/writer; edi.NewNonValidatingReader must return exactly the written "
          "pieces (name, raw, elements with indexes) and the full edi format the logical (unescaped) values, defaults or a fatal error "
          "for a missing element. Non-trivial: some value contains an escaped rune, or a segment exceeds 128 bytes, or a multi-rune "
          "delimiter is in use; distinct by SHA-256 of the case."),
    quick={"checks": 3000, "shards": 4, "timeout": 900},
    thorough={"checks": 25000, "shards": 16, "timeout": 3300, "fuzz": [{"target": "FuzzC07", "time": 180}]},
    floors={"escaped": 0.40, "segment>128": 0.30, "multi-rune-delimiter": 0.25, "segment>4096": 0.02, "two-declarations-same-element": 0.08,
            "ignore-crlf": 0.10, "newline-delimiter": 0.10, "stray-cr": 0.03, "crlf-only-token": 0.04, "no-release-char": 0.08,
            "outcome=fatal": 0.08, "__nontrivial__": 0.60},
    assumptions=["delimiter strings are built from disjoint rune sets (no delimiter is a substring of another or contains the release character)",
                 "CR/LF occur as data only where no documented rule removes them; segment names are free of delimiter runes"])

META["C05"] = {
    "technique": "model-based property-based testing vs a recursive greedy reference matcher + small-scope enumeration (thorough)",
    "design_ref": "DESIGN.md §5 C05",
    "level_text": ("Generated hierarchies and unit sequences for edi, csv2 and fixedlength2 judged by an independent recursive matcher: same "
                   "delivered trees (every input unit is identifiable in the tree), same terminal kind. The thorough tier enumerates all "
                   "sequences up to 6 units for each drawn hierarchy (small-scope exhaustive per hierarchy, sampled over hierarchies)."),
    "level_note": "Trusted: model.Greedy (written from the docs; the EDI top-level repetition follows an existing test). max=0 and unanchored regexes excluded.",
}
META["C07"] = {
    "technique": "round-trip property-based testing (own escaper/writer vs tokenizer and element nodes)",
    "design_ref": "DESIGN.md §5 C07",
    "level_text": ("Generated delimiter configurations and logical segments written by an own escaper; the non-validating reader and the full "
                   "edi format must give back exactly the logical pieces. Exploration."),
    "level_note": "Trusted: the harness' EDI writer. Delimiter sets are disjoint by construction (overlapping delimiters are C03's domain).",
}

add("C06", "TestC06",
    rule=("Cases: a logical table (gen.Table: 1-8 columns, 0-10 records) for csv, csv2, fixed-length or fixedlength2 with layouts rows "
          "1-3, header/footer, header-only and a read-ahead probe layout (a non-target header/footer record whose footer never occurs, "
          "so lines stay buffered across pops); 16 delimiters (blank, regexp meta characters, a letter, multi-byte runes); CRLF or LF, "
          "blank lines, unterminated last line; rows shorter and longer than declared; csv2 index explicit or defaulted, line_index / "
          "line_pattern; fixed columns with gaps, overlaps, start_pos and length past the line; replace_double_quotes; header "
          "verification with matches and mismatches, header_row_index / data_row_index jumps; line and field lengths from 0..20 plus "
          "windows 4090-4100, 8185-8200, 65530-65540. The table is the model; an own RFC-4180 writer and fixed-width renderer produce the "
          "bytes; a pass-through schema (no_trim, keep_empty_or_null) runs through NewSchema + Read. Oracle: every record equals the "
          "model row for every column, in row order, then io.EOF; a mismatched header gives a fatal first Read and no record. "
          "Non-trivial: a field contains delimiter, quote, LF or a multi-byte rune, or a physical line exceeds 4096 bytes, or a record "
          "spans >= 2 lines; distinct by SHA-256 of the case."),
    quick={"checks": 1500, "shards": 4, "timeout": 900},
    thorough={"checks": 40000, "shards": 16, "timeout": 3300, "fuzz": [{"target": "FuzzC06", "time": 120}]},
    floors={"line>4096": 0.20, "multi-line": 0.25, "multi-byte": 0.30},
    assumptions=["CR inside quoted csv fields is excluded (Go's decoder normalises CRLF inside quotes)",
                 "csv delimiters quote, CR, LF, NUL, U+FFFD are C03's domain; with replace_double_quotes the delimiter ' is excluded",
                 "for a column 'empty text' and 'no node / null' are equivalent, as the statement allows ('nothing/empty')",
                 "old csv header_row_index/data_row_index are physical line numbers: blank lines are kept out of the header zone"])

add("C20", "TestC20", race=True, note_current=True,
    rule=("Cases, three kinds: seq (one goroutine, <= 40 JavaScript / JavaScriptWithContext calls), conc (2-8 goroutines with <= 8 calls "
          "each, started and joined by the check), stack (an xml, json or edi gen.Shape with 1-6 records and 1-5 javascript / "
          "javascript_with_context fields anchored at '.', '..' or '../..', run through NewSchema and Read). Scripts: probes of the four "
          "argument names and _node, Object.keys(this), expressions over the call's own arguments, 26 constant result shapes (ints, "
          "fractions, -0, 2^53+1, strings, booleans, arrays, nested objects), 16 error shapes (NaN, +-Infinity, null, undefined, throw), "
          "_node scripts; arguments strings, ints, floats, bools; nodes mutated between calls. Oracle: each result equals the same "
          "script on a brand-new goja runtime created in the harness with _node = idr.JSONify2(node now): error <=> error, equal JSON. "
          "Built with -race. Non-trivial: a call probes a name that an earlier call on the same goroutine/transform set, or a _node call "
          "hits a node whose JSON differs from its previous _node call; distinct by SHA-256 of the case. One call in eight with arguments has an ill-formed argument list (a non-string argument name after 0-2 well-formed pairs): the call must fail and nothing of it may reach a later call (class ill-formed-argument-list). Rarely an argument is called _node. Half of the json stack cases make c0 a JSON number and put a javascript_with_context field on it (the _node of a leaf that is a bare number; class stack:_node-of-a-number-leaf)."),
    quick={"checks": 300, "shards": 4, "timeout": 900, "gomaxprocs": 8},
    thorough={"checks": 8000, "shards": 16, "timeout": 3300, "gomaxprocs": 8},
    floors={"ill-formed-argument-list": 0.15, "stack:_node-of-a-number-leaf": 0.015},
    assumptions=["scripts that assign globals (incl. top-level var), loop, or use Date/Math.random are excluded by the statement",
                 "the error classification of the reference is done in JavaScript inside the fresh runtime"])

META["C06"] = {
    "technique": "round-trip property-based testing (generator's table as model, own RFC-4180 / fixed-width writers)",
    "design_ref": "DESIGN.md §5 C06",
    "level_text": ("Generated tables rendered by own writers and read back through all four delimited / fixed-length readers with a "
                   "pass-through schema; every column of every record must equal the model. Sizes are aimed at the 4096 / 8192 / 65536 "
                   "buffer boundaries. Exploration."),
    "level_note": "Trusted: the harness' writers and the naive model (gen.Table.Expect).",
}
META["C20"] = {
    "technique": "stateful differential property-based testing vs a fresh goja VM per call, under the race detector",
    "design_ref": "DESIGN.md §5 C20",
    "level_text": ("Generated call sequences, concurrent mixes and full-stack schemas; every javascript result is compared with the same "
                   "script on a brand-new runtime, which makes history-independence and faithful value mapping one comparison. "
                   "Exploration; concurrent arm asserts only schedule-independent facts."),
    "level_note": "Trusted: goja itself (the same engine, but a fresh instance) as the reference for script semantics.",
}

add("C02", "TestC02",
    rule=("Cases: transform_declarations built from const / external / field / object / array / template / custom_func (depth <= 5, <= ~40 "
          "declarations, 0-3 templates referenced at several cursors and with an xpath on the reference, verbatim re-use of earlier leaf "
          "declarations at other positions, arrays of 0-13 children, xpath and xpath_dynamic anchors incl. blank / failing dynamic values, "
          "all type / no_trim / keep_empty_or_null combinations, custom functions concat, coalesce, upper, lower, uuidv3, dateTimeToEpoch, "
          "copy, javascript with ignore_error) over 1-4 records of xml (attributes, nesting, repeated names, mixed content), json "
          "(nested, arrays), csv2 (header/child records) and edi (segments with child segments); xpaths from a record-relative grammar "
          "(child steps, *, ., .., //, @attr, positional and value predicates, unions). Oracle: an independent reference evaluator "
          "(own template inlining, cursor logic, normalisation, casts, positional arguments with zero values) run on the same record node "
          "(obtained from a pass-through twin transform so that failed records are visible too); node-set selection delegated to "
          "idr.MatchAll without cache. Where the documentation is silent (kept empty container as null / {} / []; failing xpath_dynamic; "
          "failing argument under ignore_error) all documented-compatible outcomes are accepted and counted. Non-trivial: identical "
          "declaration text with an anchor at >= 2 positions, or a template used at >= 2 places, or an array of >= 10 children, or >= 3 "
          "nested anchors; distinct by SHA-256 of the case. Custom functions include two caller-registered ones (Extension built with customfuncs.Merge): c02mix(string, int64, bool, float64) and the variadic c02var(string, ...interface{}), with absent, well-typed constant and cast arguments. One-parameter functions sometimes get a surplus argument (with or without a value); javascript calls with numeric results are cast with type (float -> int truncates toward zero). One case in five adds textually identical copy calls WITHOUT an anchor of their own at several cursor positions of one record (every element of an array over an xpath, an anchored object, the record itself): their values differ only by the node they are evaluated on (class implicit-node-func-at-several-nodes)."),
    quick={"checks": 2000, "shards": 4, "timeout": 900},
    thorough={"checks": 15000, "shards": 16, "timeout": 3300},
    floors={"implicit-node-func-at-several-nodes": 0.08, "identical-text": 0.05, "template-multi-use": 0.05, "array>=10": 0.05, "deep-anchors": 0.05,
            "format=xml": 0.3, "format=json": 0.15, "format=csv2": 0.05, "format=edi": 0.05},
    assumptions=["trusted base: idr.MatchAll (expression cache disabled) selects the node set of an xpath (the xpath binding is C11's / C04's subject); "
                 "built-in custom functions are called directly by the model",
                 "template references carry an xpath only when the inlined body admits one (not const / external / array bodies)",
                 "type casts are generated on string-valued results only"])

add("C04", "TestC04",
    rule=("Cases: a generated XML or JSON document (names a, b, c, r; depth <= 6; repeated and nested names; mixed content; attribute k in "
          "0,1,2; one case in ten up to ~200 nodes) and a target xpath of the stream-target class (absolute or //, wildcards, at most one "
          "final-step predicate that inspects only the candidate: attribute, child value, text, not(), count(), contains(); numeric "
          "comparisons only on all-numeric JSON documents). Every case is streamed through idr.NewXMLStreamReader / NewJSONStreamReader "
          "and through the xml / json file format with a copy transform. Oracle: the delivered sequence equals [n in P : no proper "
          "ancestor of n in P and n in F] in document order (P = matches of the path without the final predicate, F = matches of the "
          "full xpath, both by idr.MatchAll on the completely loaded document, itself cross-checked against a token-level DOM), each "
          "compared as a full snapshot taken at delivery time plus its ancestor chain. Non-trivial: >= 2 path matches and a nested match, "
          "a rejected-then-accepted pair or >= 2 candidates under one parent; distinct by SHA-256 of the case."),
    quick={"checks": 2500, "shards": 4, "timeout": 900},
    thorough={"checks": 40000, "shards": 16, "timeout": 3300},
    floors={},
    assumptions=["positional predicates, last(), predicates on non-final steps, reverse/sibling axes and two predicates on the last step are "
                 "outside the stated class and not generated"])

add("C08", "TestC08",
    rule=("JSON cases: any nesting <= 8, empty containers, hostile keys (empty string, array-marker look-alikes), escape forms, numeric "
          "forms (ints, fractions, exponents, -0, 2^53+-1, 1e308), insignificant whitespace; reference encoding/json; compared: "
          "J2NodeToInterface(root,true), JSONify2(root), copy of the whole document and of every top-level member. XML cases: attributes, "
          "default and prefixed namespaces (several prefixes, re-declaration in inner scopes, one URI under two prefixes), mixed content, "
          "CDATA, references, comments, PIs, prolog; the reader's tree must be isomorphic to a token-level DOM built from a second "
          "xml.Decoder (element order, local name, prefix, URI, attributes in order as leading children, merged character data). "
          "Non-trivial: JSON - a 0-or-1-member container, an empty key or a non-integer number; XML - >= 2 namespace bindings, mixed "
          "content or CDATA/references; distinct by SHA-256 of the case. One JSON case in 60 is a chain of 300-1100 nested arrays/objects. XML documents reach the reader as *strings.Reader or through a plain io.Reader (whole / 7-byte pieces / one byte per Read); pure-ASCII documents may declare a single-byte encoding."),
    quick={"checks": 2500, "shards": 4, "timeout": 900},
    thorough={"checks": 50000, "shards": 16, "timeout": 3300},
    floors={},
    assumptions=["duplicate JSON keys are not generated (a JSON value has none); comments and PIs are not claimed and ignored",
                 "the pseudo-URI 'xmlns' the decoder reports for namespace-declaration attributes is not compared"])

META["C02"] = {
    "technique": "property-based testing against an independent reference evaluator of the documented transform semantics",
    "design_ref": "DESIGN.md §5 C02, Appendix A",
    "level_text": ("Generated declaration trees x records for four formats; every emitted value (or per-record failure) must equal the "
                   "reference evaluator's. The generator aims at the places where two things meet: identical declaration text at different "
                   "cursors, templates at several cursors, arrays of ten and more children, nested anchors. Exploration."),
    "level_note": ("Trusted: idr.MatchAll for node-set selection and the exported custom functions; the model re-implements parse.go, "
                   "value.go, validate.go (templates) and invokeCustomFunc.go. Documentation gaps are tolerated explicitly (Appendix A rows T)."),
}
META["C04"] = {
    "technique": "differential property-based testing: streaming delivery vs whole-document selection",
    "design_ref": "DESIGN.md §5 C04",
    "level_text": ("Generated documents and target xpaths of the stated class; the streamed record sequence must equal the outermost path "
                   "matches that satisfy the predicate themselves, in document order, each complete at delivery. Exploration."),
    "level_note": "Trusted: idr.MatchAll on the fully loaded document (cross-checked against a token-level DOM in the same case).",
}
META["C08"] = {
    "technique": "round-trip / differential property-based testing (encoding/json, token-level XML DOM)",
    "design_ref": "DESIGN.md §5 C08",
    "level_text": ("Generated JSON values must convert back to an equal value (float64 precision) through every conversion path incl. copy; "
                   "generated XML documents must be represented as the standard decoder reports them. Exploration."),
    "level_note": "Trusted: encoding/json and encoding/xml (a second decoder instance) as references.",
}
