"""Per-property configuration of the checks (budgets, class floors, evidence rule text)."""

CHECKS = {}


def add(id, test, rule, quick, thorough, floors=None, race=False, level="exploration", assumptions=None, coverage_extra=None):
    CHECKS[id] = {"id": id, "test": test, "rule": rule, "quick": quick, "thorough": thorough, "floors": floors or {},
                  "race": race, "level": level, "assumptions": assumptions or [], "coverage_extra": coverage_extra or {}}


add("C19", "TestC19",
    rule=("Cases: an instant assembled from separately drawn year (mixture: uniform 1..9999, special years around the "
          "int64-nanosecond limits 1677/1678, 2262/2263, 1970, 2038, 9999; modern years), day and second, or a zone's DST "
          "transition +-3h; a source zone form (none, Z, +-hh, +-hhmm, +-hh:mm, -Area/City), fromTZ/toTZ from the loadable "
          "IANA zones, a date layout x time layout (0-9 fraction digits, AM/PM variants) rendered by an own fmt.Sprintf "
          "formatter, one of the four functions (or a round trip, the empty input, an unparsable mutation). Non-trivial: the "
          "instant lies outside 1970-2038 or within 48h of a DST transition of a non-UTC zone used by the case; distinct by "
          "SHA-256 of the serialised case."),
    quick={"checks": 60000, "shards": 1, "timeout": 300},
    thorough={"checks": 500000, "shards": 16, "timeout": 1500},
    floors={"outside-1678-2262": 0.20, "nontrivial": 0.3, "func=0": 0.15, "func=2": 0.08, "func=4": 0.08, "srcform=5": 0.1},
    assumptions=["Go's time package (zone database, calendar arithmetic) is the reference for instants and zone offsets",
                 "two-digit-year layout mm/dd/yy is not generated (cannot express the 1..9999 range)",
                 "sub-second digits may be cut or rounded to the RFC3339 second; LMT second-offsets are compared to the minute"])

# ---------------------------------------------------------------------------------------------------
# MANIFEST texts (tools/gen_manifest.py)
META = {}
NOT_BUILT = {}

META["C19"] = {
    "technique": "property-based testing against calendar arithmetic (own formatter / own RFC3339 reader)",
    "design_ref": "DESIGN.md §5 C19",
    "level_text": ("Generated-input search: tens of thousands (quick) to millions (thorough) of (instant, layout, zone form, fromTZ, toTZ, "
                   "function) cases over years 1..9999, every smart-parser layout family and all loadable IANA zones, each compared with "
                   "Go's time arithmetic on the generated instant. Exploration, not proof: instants are sampled, biased to DST "
                   "transitions and the int64-nanosecond limits."),
    "level_note": ("Trusted: Go's time package and the system zone database as reference; inputs are rendered by fmt.Sprintf, outputs read by "
                   "an own RFC3339 parser. Not claimed: two-digit-year layout, zone abbreviations (PST), rounding rule of sub-second digits."),
}

add("C09", "TestC09",
    rule=("Cases: gen.Shape (7 formats x 3 layout variants x 3 transform flavours, 3 encodings, optional BOM) with 0-6 generated records "
          "(values biased to the format's delimiters/quotes/escapes and multi-byte runes), optionally malformed (truncate / overwrite / "
          "insert), and 3-5 delivery schedules (1 byte, random 1..17, around 127/128/129 and 4095/4096/4097, forced cuts inside multi-byte "
          "runes, CRLF pairs, escape pairs, multi-byte delimiters and the BOM, runs of <=3 (0,nil) reads, data returned with io.EOF). "
          "Oracle: the transcript (records, error classes and texts, checksums) under each schedule equals the single-chunk transcript. "
          "Non-trivial: >= 2 results before the terminal one and a schedule with a forced cut inside one of those byte pairs; distinct by "
          "SHA-256 of the serialised case."),
    quick={"checks": 1500, "shards": 4, "timeout": 600},
    thorough={"checks": 20000, "shards": 16, "timeout": 3000},
    floors={"cut=rune": 0.10, "cut=crlf": 0.10, "cut=escape": 0.10, "cut=bom": 0.10, "malformed": 0.10, "zero-reads": 0.2},
    assumptions=["runs of (0,nil) reads are capped at 3 (bufio legitimately gives up with ErrNoProgress after 100)",
                 "for the json format the digits after 'line ' in error texts are masked (documented as a rough number that depends on decoder pre-fetch)"])

add("C16", "TestC16", level="fault_enumeration",
    rule=("Cases: gen.Shape input (all 7 formats) with 0-5 records and a chunk schedule; for each input EVERY fault position p in "
          "0..len(input) is enumerated (the reader delivers p bytes, then a non-EOF error: persistently, or once, then `resume` more bytes, "
          "then forever). Oracle: a terminal result within N+3 Reads (N = length of the fault-free transcript), repeated unchanged by two "
          "further Reads; all earlier results except possibly the last equal the fault-free results (kind, JSON, checksum). "
          "evaluations counts inputs; counters.fault_positions counts transform runs. Non-trivial: input with >= 2 results and > 2 bytes "
          "(so faults fall strictly inside); distinct by SHA-256 of the serialised case. exhaustive per input, not globally."),
    quick={"checks": 400, "shards": 4, "timeout": 600},
    thorough={"checks": 6000, "shards": 16, "timeout": 3000},
    floors={"transient": 0.3, "format=csv": 0.05, "format=edi": 0.05, "format=xml": 0.05, "format=json": 0.05,
            "format=fixed-length": 0.05, "format=fixedlength2": 0.05, "format=csv2": 0.05},
    assumptions=["io.EOF after a fault counts as a terminal result (the old fixed-length header/footer reader ends the input at a line "
                 "matching no header); such cases are counted in counters.fault_masked_as_eof, not raised"],
    coverage_extra={"exhaustive_per_input": True})

META["C09"] = {
    "technique": "metamorphic property-based testing (chunked delivery vs single chunk)",
    "design_ref": "DESIGN.md §5 C09",
    "level_text": ("Generated-input search over (format, schema, input, delivery schedule): every schedule must reproduce the single-chunk "
                   "transcript byte for byte. Schedules are constructed to cut inside multi-byte runes, CRLF, escape pairs, delimiters and "
                   "the BOM; exploration only - boundaries are sampled, not enumerated."),
    "level_note": "Trusted: the harness' chunking reader; inputs <= a few KB so buffer roll-over is reached through small chunks rather than large inputs.",
}
META["C16"] = {
    "technique": "fault-position enumeration over generated inputs (metamorphic vs fault-free run)",
    "design_ref": "DESIGN.md §5 C16",
    "level_text": ("For each generated input every byte offset is tried as the position of a persistent or transient-then-persistent read "
                   "error; the transform must reach a sticky terminal result within N+3 Reads and must not corrupt earlier results. "
                   "Exhaustive per input over fault positions, sampled over inputs/schemas."),
    "level_note": "Trusted: the fault-injecting reader of the harness. io.EOF after a fault is accepted as terminal (counted, see evidence counters).",
}
