package run

import (
	"errors"
	"io"
	"sort"
)

// Schedule describes how a chunking reader delivers its bytes. It is pure data so that a case
// can be replayed.
type Schedule struct {
	Sizes       []int `json:"sizes"`                // chunk sizes, cycled
	Cuts        []int `json:"cuts,omitempty"`       // forced chunk boundaries (byte offsets)
	ZeroEvery   int   `json:"zero_every,omitempty"` // every n-th read is preceded by ZeroRun (0,nil) reads
	ZeroRun     int   `json:"zero_run,omitempty"`
	EOFWithData bool  `json:"eof_with_data,omitempty"` // final chunk returned together with io.EOF
}

// ChunkReader delivers data according to a Schedule.
type ChunkReader struct {
	data  []byte
	pos   int
	s     Schedule
	cuts  []int
	reads int
	zeros int
	idx   int
}

// NewChunkReader builds the reader.
func NewChunkReader(data []byte, s Schedule) *ChunkReader {
	cuts := append([]int{}, s.Cuts...)
	sort.Ints(cuts)
	return &ChunkReader{data: data, s: s, cuts: cuts}
}

func (c *ChunkReader) Read(p []byte) (int, error) {
	if len(p) == 0 {
		return 0, nil
	}
	if c.pos >= len(c.data) {
		return 0, io.EOF
	}
	c.reads++
	if c.s.ZeroEvery > 0 && c.s.ZeroRun > 0 && c.reads%c.s.ZeroEvery == 0 && c.zeros < c.s.ZeroRun {
		c.zeros++
		c.reads--
		return 0, nil
	}
	c.zeros = 0
	n := 1
	if len(c.s.Sizes) > 0 {
		n = c.s.Sizes[c.idx%len(c.s.Sizes)]
		c.idx++
	}
	if n < 1 {
		n = 1
	}
	end := c.pos + n
	for _, cut := range c.cuts {
		if cut > c.pos && cut < end {
			end = cut
			break
		}
	}
	if end > len(c.data) {
		end = len(c.data)
	}
	if end-c.pos > len(p) {
		end = c.pos + len(p)
	}
	m := copy(p, c.data[c.pos:end])
	c.pos += m
	if c.pos >= len(c.data) && c.s.EOFWithData {
		return m, io.EOF
	}
	return m, nil
}

// ErrInjected is the non-EOF error of FaultReader.
var ErrInjected = errors.New("injected read fault")

// FaultReader delivers the first FailAt bytes of data (through an inner chunk schedule) and then
// returns ErrInjected. Transient: after the first error it delivers Resume more bytes and then fails
// forever.
type FaultReader struct {
	// WithData makes the (first occurrence of each) failure accompany the last bytes delivered before it:
	// Read returns (n > 0, err) instead of (n, nil) followed by (0, err).
	WithData bool
	// Err is the error value the failing Reads return (nil: ErrInjected).
	Err       error
	inner     *ChunkReader
	data      []byte
	failAt    int
	resume    int
	delivered int
	failed    bool
	Faults    int
}

// NewFaultReader builds the reader; resume < 0 means persistent from the first fault on.
func NewFaultReader(data []byte, s Schedule, failAt, resume int) *FaultReader {
	return &FaultReader{inner: NewChunkReader(data, s), data: data, failAt: failAt, resume: resume}
}

func (f *FaultReader) Read(p []byte) (int, error) {
	if len(p) == 0 {
		return 0, nil
	}
	limit := f.failAt
	if f.failed {
		if f.resume <= 0 {
			f.Faults++
			return 0, f.err()
		}
		limit = f.failAt + f.resume
	}
	if f.delivered >= limit {
		if !f.failed {
			f.failed = true
		} else {
			f.resume = 0
		}
		f.Faults++
		return 0, f.err()
	}
	if len(p) > limit-f.delivered {
		p = p[:limit-f.delivered]
	}
	n, err := f.inner.Read(p)
	f.delivered += n
	if err == io.EOF && f.delivered >= limit {
		err = nil
	}
	if f.WithData && n > 0 && f.delivered >= limit && err == nil {
		if !f.failed {
			f.failed = true
		} else {
			f.resume = 0
		}
		f.Faults++
		return n, f.err()
	}
	return n, err
}

func (f *FaultReader) err() error {
	if f.Err != nil {
		return f.Err
	}
	return ErrInjected
}
