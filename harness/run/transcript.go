// Package run drives the real omniparser stack and records what it returns.
package run

import (
	"bytes"
	"encoding/json"
	"errors"
	"fmt"
	"io"
	"strings"

	"github.com/jf-tech/omniparser"
	"github.com/jf-tech/omniparser/errs"
	"github.com/jf-tech/omniparser/idr"
	"github.com/jf-tech/omniparser/transformctx"
)

// Step is one Read result.
type Step struct {
	Kind     string `json:"kind"` // rec | fail | term
	JSON     string `json:"json,omitempty"`
	Err      string `json:"err,omitempty"`
	ErrClass string `json:"err_class,omitempty"` // eof | transform-failed | fatal
	Checksum string `json:"checksum,omitempty"`
	RawJSON  string `json:"raw,omitempty"`
	Bytes    string `json:"bytes,omitempty"` // the bytes returned by Read, verbatim
}

// KeyExact compares everything including the verbatim output bytes and the error text.
func (s Step) KeyExact() string { return s.KeyWithErr() + "|" + s.Bytes }

// Key is the comparison key of a step without error text.
func (s Step) Key() string { return s.Kind + "|" + s.ErrClass + "|" + s.JSON + "|" + s.Checksum }

// KeyWithErr includes the error text.
func (s Step) KeyWithErr() string { return s.Key() + "|" + s.Err }

// Canon re-encodes JSON canonically (sorted keys, no HTML escaping, numbers verbatim).
func Canon(b []byte) (string, error) {
	d := json.NewDecoder(bytes.NewReader(b))
	d.UseNumber()
	var v interface{}
	if err := d.Decode(&v); err != nil {
		return "", err
	}
	if d.More() {
		return "", errors.New("trailing data after JSON value")
	}
	var buf bytes.Buffer
	e := json.NewEncoder(&buf)
	e.SetEscapeHTML(false)
	if err := e.Encode(v); err != nil {
		return "", err
	}
	return strings.TrimRight(buf.String(), "\n"), nil
}

// Opts configures a transcript run.
type Opts struct {
	MaxReads  int  // hard cap (0: 2*len+64 must be supplied by caller through InputLen)
	InputLen  int  // used for the default cap
	WithRaw   bool // also record idr.JSONify2 of the raw record
	External  map[string]string
	ExtraRead int // Reads to issue after the terminal result (they must repeat it; recorded)
	// Ctx, when set, is the context VALUE handed to NewTransform (its ExternalProperties are overwritten with External):
	// a caller may build one Ctx and pass it to one transform after the other. InputName overrides "input".
	Ctx       *transformctx.Ctx
	InputName string
}

// ErrNoTerminal is returned when the cap was hit before a terminal result.
var ErrNoTerminal = errors.New("no terminal result within the read cap")

// NewSchema parses a schema with the default extension.
func NewSchema(schema string) (omniparser.Schema, error) {
	return omniparser.NewSchema("schema", strings.NewReader(schema))
}

// Transcript runs a transform to its terminal result.
func Transcript(sch omniparser.Schema, input io.Reader, o Opts) ([]Step, error) {
	ctx := o.Ctx
	if ctx == nil {
		ctx = &transformctx.Ctx{}
	}
	ctx.ExternalProperties = o.External
	name := o.InputName
	if name == "" {
		name = "input"
	}
	tr, err := sch.NewTransform(name, input, ctx)
	if err != nil {
		return []Step{{Kind: "term", Err: err.Error(), ErrClass: "newtransform"}}, nil
	}
	max := o.MaxReads
	if max == 0 {
		max = 2*o.InputLen + 64
	}
	var steps []Step
	// the byte slices Read handed out, kept as they are (not copied): what a caller got for record k must still be there
	// after later Reads (a caller may batch results). Checked when the run ends; a clobbered result is marked in its
	// step's JSON, so that every comparison by key sees it.
	type heldOut struct {
		step int
		b    []byte
	}
	var held []heldOut
	defer func() {
		for _, h := range held {
			if h.step < len(steps) && string(h.b) != steps[h.step].Bytes {
				steps[h.step].JSON = fmt.Sprintf("CLOBBERED-BY-A-LATER-READ: Read returned %q, the same slice now holds %q", steps[h.step].Bytes, h.b)
			}
		}
	}()
	for i := 0; i < max; i++ {
		b, err := tr.Read()
		st := ClassifyStep(b, err)
		if err == nil {
			held = append(held, heldOut{step: len(steps), b: b})
			rr, rerr := tr.RawRecord()
			if rerr != nil {
				return steps, fmt.Errorf("RawRecord after a successful Read failed: %v", rerr)
			}
			st.Checksum = rr.Checksum()
			if o.WithRaw {
				if n, ok := rr.Raw().(*idr.Node); ok {
					st.RawJSON = idr.JSONify2(n)
				}
			}
		}
		steps = append(steps, st)
		if st.Kind == "term" {
			for j := 0; j < o.ExtraRead; j++ {
				b2, err2 := tr.Read()
				steps = append(steps, ClassifyStep(b2, err2))
			}
			return steps, nil
		}
	}
	return steps, ErrNoTerminal
}

// ClassifyStep turns a Read result into a Step.
func ClassifyStep(b []byte, err error) Step {
	switch {
	case err == nil:
		c, cerr := Canon(b)
		if cerr != nil {
			return Step{Kind: "rec", JSON: "INVALID-JSON:" + string(b), Bytes: string(b)}
		}
		return Step{Kind: "rec", JSON: c, Bytes: string(b)}
	case errs.IsErrTransformFailed(err):
		return Step{Kind: "fail", Err: err.Error(), ErrClass: "transform-failed"}
	case err == io.EOF:
		return Step{Kind: "term", Err: err.Error(), ErrClass: "eof"}
	default:
		return Step{Kind: "term", Err: err.Error(), ErrClass: "fatal"}
	}
}

// Diff compares two transcripts by key function; returns "" when equal.
func Diff(a, b []Step, key func(Step) string) string {
	n := len(a)
	if len(b) < n {
		n = len(b)
	}
	for i := 0; i < n; i++ {
		if key(a[i]) != key(b[i]) {
			return fmt.Sprintf("step %d differs:\n  A: %+v\n  B: %+v", i, a[i], b[i])
		}
	}
	if len(a) != len(b) {
		return fmt.Sprintf("lengths differ: %d vs %d (first extra: %+v)", len(a), len(b), append(a[n:], b[n:]...)[0])
	}
	return ""
}
