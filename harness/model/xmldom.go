// Package model holds reference models that the oracles compare the real code against.
//
// This file: a plain snapshot tree (TNode) that both an *idr.Node tree and an independent, token-level
// XML DOM are converted into, plus the comparison. The DOM is built from two encoding/xml decoders
// running in lock-step over the same bytes: Token() supplies the namespace URI and local name,
// RawToken() the prefix exactly as written. Nothing in here shares code with idr's XML reader.
package model

import (
	"bytes"
	"encoding/xml"
	"fmt"
	"io"
	"strings"

	"github.com/jf-tech/omniparser/idr"
)

// Node kinds of a TNode.
const (
	TDoc  = "doc"
	TElem = "elem"
	TAttr = "attr"
	TText = "text"
)

// TNode is a pointer-free copy of a tree node: what an oracle may keep across Read calls.
type TNode struct {
	Kind   string   `json:"kind"`
	Name   string   `json:"name,omitempty"`   // local name (elem, attr)
	Prefix string   `json:"prefix,omitempty"` // namespace prefix (XML)
	URI    string   `json:"uri,omitempty"`    // namespace URI (XML)
	Text   string   `json:"text,omitempty"`   // character data (text nodes)
	JType  uint     `json:"jtype,omitempty"`  // idr.JSONType flags (JSON trees)
	NSDecl bool     `json:"nsdecl,omitempty"` // attr is a namespace declaration (xmlns / xmlns:p); DOM side only
	Kids   []*TNode `json:"kids,omitempty"`   // attributes first (as leading children), then content in order
}

// SnapshotIDR deep-copies n and its subtree.
func SnapshotIDR(n *idr.Node) *TNode {
	if n == nil {
		return nil
	}
	t := &TNode{}
	switch n.Type {
	case idr.DocumentNode:
		t.Kind = TDoc
	case idr.ElementNode:
		t.Kind = TElem
		t.Name = n.Data
	case idr.AttributeNode:
		t.Kind = TAttr
		t.Name = n.Data
	case idr.TextNode:
		t.Kind = TText
		t.Text = n.Data
	default:
		t.Kind = fmt.Sprintf("unknown(%d)", n.Type)
	}
	if idr.IsXML(n) {
		x := idr.XMLSpecificOf(n)
		t.Prefix, t.URI = x.NamespacePrefix, x.NamespaceURI
	}
	if idr.IsJSON(n) {
		t.JType = uint(idr.JSONTypeOf(n))
	}
	for c := n.FirstChild; c != nil; c = c.NextSibling {
		t.Kids = append(t.Kids, SnapshotIDR(c))
	}
	return t
}

// AncestorChain describes the ancestors of n from the topmost one down to n's parent: for every
// ancestor its kind, name, prefix and (XML) attribute list. Ancestors of a node handed out by a stream
// reader are incomplete by design, but these parts of them are fixed once the start tag was read.
func AncestorChain(n *idr.Node) []string {
	var out []string
	for a := n.Parent; a != nil; a = a.Parent {
		var sb strings.Builder
		switch a.Type {
		case idr.DocumentNode:
			sb.WriteString("#doc")
		default:
			if idr.IsXML(a) && idr.XMLSpecificOf(a).NamespacePrefix != "" {
				sb.WriteString(idr.XMLSpecificOf(a).NamespacePrefix + ":")
			}
			sb.WriteString(a.Data)
		}
		for c := a.FirstChild; c != nil && c.Type == idr.AttributeNode; c = c.NextSibling {
			fmt.Fprintf(&sb, " @%s=%q", c.Data, c.InnerText())
		}
		out = append([]string{sb.String()}, out...)
	}
	return out
}

// MergeText returns a copy of t in which runs of adjacent text children are merged into one text
// node and empty text nodes are dropped (comments, processing instructions and CDATA boundaries
// split character data into several tokens; how many is not part of any claim).
func MergeText(t *TNode) *TNode {
	if t == nil {
		return nil
	}
	c := *t
	c.Kids = nil
	for _, k := range t.Kids {
		if k.Kind == TText {
			if n := len(c.Kids); n > 0 && c.Kids[n-1].Kind == TText {
				c.Kids[n-1].Text += k.Text
				continue
			}
			kk := *k
			kk.Kids = nil
			c.Kids = append(c.Kids, &kk)
			continue
		}
		c.Kids = append(c.Kids, MergeText(k))
	}
	// drop text nodes that are empty after merging, except below attributes (an attribute with an
	// empty value keeps its empty text child)
	if c.Kind != TAttr {
		kept := c.Kids[:0]
		for _, k := range c.Kids {
			if k.Kind == TText && k.Text == "" {
				continue
			}
			kept = append(kept, k)
		}
		c.Kids = kept
	}
	return &c
}

// CountNodes returns the number of nodes in t.
func CountNodes(t *TNode) int {
	if t == nil {
		return 0
	}
	n := 1
	for _, k := range t.Kids {
		n += CountNodes(k)
	}
	return n
}

// Mismatch is one difference found by DiffTree.
type Mismatch struct {
	Path  string // e.g. /r[0]/a[2]/@k
	Field string // kind | name | prefix | uri | text | jtype | children
	Want  string
	Got   string
	// WantNode / GotNode are the nodes at Path (nil when a child is missing on that side).
	WantNode, GotNode *TNode
}

func (m Mismatch) String() string {
	return fmt.Sprintf("%s: %s differs: want %q, got %q", m.Path, m.Field, m.Want, m.Got)
}

// DiffOpts tunes DiffTree.
type DiffOpts struct {
	// SkipNSDeclURI: do not compare the URI of namespace-declaration attributes (the decoder reports
	// the pseudo-space "xmlns" for them; what a tree should hold there is not claimed).
	SkipNSDeclURI bool
	// Max stops after this many mismatches (0: 20).
	Max int
}

// DiffTree compares two snapshots field by field and returns the differences in document order
// (nil when the trees are equal).
func DiffTree(want, got *TNode, o DiffOpts) []Mismatch {
	if o.Max == 0 {
		o.Max = 20
	}
	var out []Mismatch
	var walk func(w, g *TNode, path string)
	add := func(path, field, w, g string, wn, gn *TNode) {
		if len(out) < o.Max {
			out = append(out, Mismatch{Path: path, Field: field, Want: w, Got: g, WantNode: wn, GotNode: gn})
		}
	}
	label := func(n *TNode, i int) string {
		switch n.Kind {
		case TAttr:
			return "@" + n.Name
		case TText:
			return fmt.Sprintf("text()[%d]", i)
		case TDoc:
			return ""
		}
		return fmt.Sprintf("%s[%d]", n.Name, i)
	}
	walk = func(w, g *TNode, path string) {
		if len(out) >= o.Max {
			return
		}
		if w.Kind != g.Kind {
			add(path, "kind", w.Kind, g.Kind, w, g)
			return
		}
		if w.Name != g.Name {
			add(path, "name", w.Name, g.Name, w, g)
		}
		if w.Prefix != g.Prefix {
			add(path, "prefix", w.Prefix, g.Prefix, w, g)
		}
		if w.URI != g.URI && !(o.SkipNSDeclURI && (w.NSDecl || g.NSDecl)) {
			add(path, "uri", w.URI, g.URI, w, g)
		}
		if w.Text != g.Text {
			add(path, "text", w.Text, g.Text, w, g)
		}
		if w.JType != g.JType {
			add(path, "jtype", fmt.Sprint(w.JType), fmt.Sprint(g.JType), w, g)
		}
		n := len(w.Kids)
		if len(g.Kids) < n {
			n = len(g.Kids)
		}
		for i := 0; i < n; i++ {
			walk(w.Kids[i], g.Kids[i], path+"/"+label(w.Kids[i], i))
		}
		if len(w.Kids) != len(g.Kids) {
			add(path, "children", kidList(w), kidList(g), w, g)
		}
	}
	walk(want, got, "")
	return out
}

func kidList(n *TNode) string {
	var parts []string
	for _, k := range n.Kids {
		switch k.Kind {
		case TText:
			parts = append(parts, fmt.Sprintf("text(%q)", k.Text))
		case TAttr:
			parts = append(parts, "@"+k.Name)
		default:
			parts = append(parts, "<"+k.Name+">")
		}
	}
	return fmt.Sprintf("%d: %s", len(n.Kids), strings.Join(parts, " "))
}

// Render writes a compact one-line form of the tree (for messages).
func (t *TNode) Render() string {
	var sb strings.Builder
	var f func(n *TNode)
	qn := func(n *TNode) string {
		s := n.Name
		if n.Prefix != "" {
			s = n.Prefix + ":" + s
		}
		if n.URI != "" {
			s += "{" + n.URI + "}"
		}
		return s
	}
	f = func(n *TNode) {
		switch n.Kind {
		case TText:
			fmt.Fprintf(&sb, "%q", n.Text)
			if n.JType != 0 {
				fmt.Fprintf(&sb, "#%d", n.JType)
			}
		case TAttr:
			sb.WriteString("@" + qn(n) + "=")
			for _, k := range n.Kids {
				f(k)
			}
		default:
			if n.Kind == TDoc {
				sb.WriteString("#doc")
			} else {
				sb.WriteString("<" + qn(n) + ">")
			}
			if n.JType != 0 {
				fmt.Fprintf(&sb, "#%d", n.JType)
			}
			sb.WriteString("(")
			for i, k := range n.Kids {
				if i > 0 {
					sb.WriteString(" ")
				}
				f(k)
			}
			sb.WriteString(")")
		}
	}
	f(t)
	return sb.String()
}

// NSBinding is one namespace declaration met while reading the document (document order).
type NSBinding struct {
	Prefix string // "" for the default namespace
	URI    string
}

// XMLDOM is the result of ParseXMLDOM.
type XMLDOM struct {
	Doc      *TNode      // document node: leading/trailing character data and the root element
	Root     *TNode      // the root element
	Bindings []NSBinding // every namespace declaration in document order
	// BindingsAt[i] is the number of entries of Bindings seen when the i-th element (pre-order, 0 =
	// root) had its start tag read, its own declarations included.
	BindingsAt []int
	HasCDATA   bool
	HasEntity  bool // a character or entity reference occurs in the text
	HasComment bool
	HasPI      bool
	Mixed      bool // some element has both element children and non-blank character data
	Elements   int
}

// ParseXMLDOM builds the reference DOM from the document text with the standard decoder.
func ParseXMLDOM(doc []byte) (*XMLDOM, error) {
	cooked := xml.NewDecoder(bytes.NewReader(doc))
	raw := xml.NewDecoder(bytes.NewReader(doc))
	// (documents that declare a non-UTF-8 encoding are only generated with pure ASCII content: identity conversion)
	ident := func(label string, input io.Reader) (io.Reader, error) { return input, nil }
	cooked.CharsetReader, raw.CharsetReader = ident, ident
	res := &XMLDOM{Doc: &TNode{Kind: TDoc}}
	stack := []*TNode{res.Doc}
	res.HasCDATA = bytes.Contains(doc, []byte("<![CDATA["))
	for {
		ct, cerr := cooked.Token()
		rt, rerr := raw.RawToken()
		if cerr == io.EOF {
			if rerr != io.EOF {
				return nil, fmt.Errorf("decoders out of step at EOF: raw err %v", rerr)
			}
			break
		}
		if cerr != nil {
			return nil, cerr
		}
		if rerr != nil {
			return nil, fmt.Errorf("decoders out of step: raw err %v", rerr)
		}
		cur := stack[len(stack)-1]
		switch c := ct.(type) {
		case xml.StartElement:
			r, ok := rt.(xml.StartElement)
			if !ok || r.Name.Local != c.Name.Local || len(r.Attr) != len(c.Attr) {
				return nil, fmt.Errorf("decoders out of step at <%s>", c.Name.Local)
			}
			e := &TNode{Kind: TElem, Name: c.Name.Local, URI: c.Name.Space, Prefix: r.Name.Space}
			for i, a := range c.Attr {
				ra := r.Attr[i]
				an := &TNode{Kind: TAttr, Name: a.Name.Local, Prefix: ra.Name.Space, URI: a.Name.Space,
					Kids: []*TNode{{Kind: TText, Text: a.Value}}}
				switch {
				case ra.Name.Space == "xmlns":
					an.NSDecl = true
					res.Bindings = append(res.Bindings, NSBinding{Prefix: ra.Name.Local, URI: a.Value})
				case ra.Name.Space == "" && ra.Name.Local == "xmlns":
					an.NSDecl = true
					res.Bindings = append(res.Bindings, NSBinding{Prefix: "", URI: a.Value})
				}
				e.Kids = append(e.Kids, an)
			}
			res.BindingsAt = append(res.BindingsAt, len(res.Bindings))
			res.Elements++
			cur.Kids = append(cur.Kids, e)
			if res.Root == nil && cur == res.Doc {
				res.Root = e
			}
			stack = append(stack, e)
		case xml.EndElement:
			if len(stack) < 2 {
				return nil, fmt.Errorf("unbalanced end element </%s>", c.Name.Local)
			}
			stack = stack[:len(stack)-1]
		case xml.CharData:
			cur.Kids = append(cur.Kids, &TNode{Kind: TText, Text: string(c)})
		case xml.Comment:
			res.HasComment = true
		case xml.ProcInst:
			if c.Target != "xml" {
				res.HasPI = true
			}
		}
	}
	if len(stack) != 1 {
		return nil, fmt.Errorf("unexpected EOF: %d elements still open", len(stack)-1)
	}
	if res.Root == nil {
		return nil, fmt.Errorf("no root element")
	}
	res.HasEntity = hasReference(doc)
	var mixed func(n *TNode) bool
	mixed = func(n *TNode) bool {
		hasElem, hasText := false, false
		for _, k := range n.Kids {
			switch k.Kind {
			case TElem:
				hasElem = true
				if mixed(k) {
					return true
				}
			case TText:
				if strings.TrimSpace(k.Text) != "" {
					hasText = true
				}
			}
		}
		return hasElem && hasText
	}
	res.Mixed = mixed(res.Root)
	return res, nil
}

// hasReference reports whether the text holds an entity or character reference outside CDATA
// sections, comments and processing instructions (a plain scan; good enough for a class label).
func hasReference(doc []byte) bool {
	s := string(doc)
	for i := 0; i < len(s); {
		switch {
		case strings.HasPrefix(s[i:], "<![CDATA["):
			j := strings.Index(s[i:], "]]>")
			if j < 0 {
				return false
			}
			i += j + 3
		case strings.HasPrefix(s[i:], "<!--"):
			j := strings.Index(s[i:], "-->")
			if j < 0 {
				return false
			}
			i += j + 3
		case strings.HasPrefix(s[i:], "<?"):
			j := strings.Index(s[i:], "?>")
			if j < 0 {
				return false
			}
			i += j + 2
		case s[i] == '&':
			return true
		default:
			i++
		}
	}
	return false
}
