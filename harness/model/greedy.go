// Package model holds reference models: deliberately naive, independent implementations of the
// documented semantics that the oracles compare the real code against.
package model

import (
	"strconv"
	"strings"
)

// HDecl is a format-neutral declaration of one node of a segment / record / envelope hierarchy
// (C05). It is JSON-serialisable because it is part of the saved case.
//
// A non-group declaration matches input units (EDI segments, csv2 rows, fixed-length lines) in one
// of three documented ways:
//
//	named            the unit's tag equals Tag (EDI segment name; csv2/fixedlength2 `header` regex
//	                 that is an anchored literal of the tag) and the instance is that single unit
//	named + Footer   the first unit's tag equals Tag and the instance extends to the first unit,
//	                 starting with that same unit, whose tag equals Footer (`header` + `footer`)
//	rows-based       (Rows > 0) any Rows units (`rows`); never used for EDI
//
// A group declaration has no unit of its own: an instance of it starts exactly when an instance of
// its first non-group descendant (first child, recursively) starts.
type HDecl struct {
	Name     string   `json:"name"`            // node name in the delivered tree
	Group    bool     `json:"group,omitempty"` // segment_group / record_group / envelope_group
	Tag      string   `json:"tag,omitempty"`   // non-group, named: the unit tag that starts an instance
	Footer   string   `json:"footer,omitempty"`
	Rows     int      `json:"rows,omitempty"` // > 0: rows-based
	ExplRows bool     `json:"expl_rows,omitempty"`
	Min      *int     `json:"min,omitempty"` // nil: the format's default
	Max      *int     `json:"max,omitempty"` // nil: the format's default; < 0: unbounded
	Target   bool     `json:"target,omitempty"`
	Cols     int      `json:"cols,omitempty"`     // number of per-line id columns i1..iCols declared
	LastCol  bool     `json:"last_col,omitempty"` // header/footer records: column "f" = id of the footer line
	Children []*HDecl `json:"children,omitempty"`
}

// HUnit is one input unit: a tag (what declarations match on) and a unique id (the payload that
// lets the oracle tell which unit ended up where).
type HUnit struct {
	Tag string `json:"tag"`
	ID  string `json:"id"`
}

// HNode is a node of a delivered tree: its name, a text (leaf columns only) and ordered children.
type HNode struct {
	Name string
	Text *string
	Kids []*HNode
}

// String renders a tree compactly: name[text](kids...).
func (n *HNode) String() string {
	var sb strings.Builder
	n.write(&sb)
	return sb.String()
}

func (n *HNode) write(sb *strings.Builder) {
	sb.WriteString(n.Name)
	if n.Text != nil {
		sb.WriteString("=" + strconv.Quote(*n.Text))
	}
	if len(n.Kids) > 0 {
		sb.WriteString("(")
		for i, k := range n.Kids {
			if i > 0 {
				sb.WriteString(" ")
			}
			k.write(sb)
		}
		sb.WriteString(")")
	}
}

// HResult is what the reference matcher predicts.
type HResult struct {
	Targets []*HNode // completed target instances in input order
	Fatal   bool     // terminal result: fatal error (true) or EOF (false)
	Reason  string   // why fatal (for messages only)
	MoveOns int      // times a present unit did not start the current declaration
	Repeats int      // times a declaration took a second or later consecutive instance
	Rounds  int      // EDI only: number of top-level rounds begun
	// Consumed[i] is how many times unit i was consumed by an instance (all 1 when EOF is reported).
	Consumed []int
}

// HOpts selects the format-specific parts of the definition.
type HOpts struct {
	DefMin, DefMax int  // defaults for absent min / max (EDI 1/1, csv2 and fixedlength2 0/unbounded=-1)
	RootRepeats    bool // EDI: the top-level declaration list as a whole may repeat (see Greedy)
}

const hUnbounded = int(^uint(0) >> 1)

type hMatcher struct {
	o     HOpts
	units []HUnit
	pos   int
	res   HResult
}

func (m *hMatcher) min(d *HDecl) int {
	if d.Min == nil {
		return m.o.DefMin
	}
	return *d.Min
}

func (m *hMatcher) max(d *HDecl) int {
	v := m.o.DefMax
	if d.Max != nil {
		v = *d.Max
	}
	if v < 0 {
		return hUnbounded
	}
	return v
}

// span tells how many units an instance of the non-group declaration d starting at the current
// position would cover; 0 means the next unit does not start an instance of d.
func (m *hMatcher) span(d *HDecl) int {
	rest := m.units[m.pos:]
	if d.Rows > 0 {
		if len(rest) >= d.Rows {
			return d.Rows
		}
		return 0
	}
	if len(rest) == 0 || rest[0].Tag != d.Tag {
		return 0
	}
	if d.Footer == "" {
		return 1
	}
	for i := range rest {
		if rest[i].Tag == d.Footer {
			return i + 1
		}
	}
	return 0
}

// starts tells whether the next unit starts an instance of d (a group through its first
// non-group descendant).
func (m *hMatcher) starts(d *HDecl) bool {
	for d.Group {
		if len(d.Children) == 0 {
			return false
		}
		d = d.Children[0]
	}
	return m.span(d) > 0
}

func (m *hMatcher) fail(reason string) {
	if !m.res.Fatal {
		m.res.Fatal = true
		m.res.Reason = reason
	}
}

// seq matches a declaration list in order under parent.
func (m *hMatcher) seq(decls []*HDecl, parent *HNode) {
	for _, d := range decls {
		count := 0
		for count < m.max(d) && m.starts(d) {
			if count >= 1 {
				m.res.Repeats++
			}
			m.one(d, parent)
			if m.res.Fatal {
				return
			}
			count++
		}
		if m.pos < len(m.units) && count < m.max(d) {
			m.res.MoveOns++ // a unit is present and does not start d
		}
		if count < m.min(d) {
			m.fail("'" + d.Name + "' needs min occur " + strconv.Itoa(m.min(d)) + ", got " + strconv.Itoa(count))
			return
		}
	}
}

// one consumes one instance of d.
func (m *hMatcher) one(d *HDecl, parent *HNode) {
	n := &HNode{Name: d.Name}
	parent.Kids = append(parent.Kids, n)
	if !d.Group {
		k := m.span(d)
		lines := m.units[m.pos : m.pos+k]
		for i := 0; i < d.Cols && i < k; i++ {
			id := lines[i].ID
			n.Kids = append(n.Kids, &HNode{Name: "i" + strconv.Itoa(i+1), Text: &id})
		}
		if d.LastCol {
			id := lines[k-1].ID
			n.Kids = append(n.Kids, &HNode{Name: "f", Text: &id})
		}
		for i := 0; i < k; i++ {
			m.res.Consumed[m.pos+i]++
		}
		m.pos += k
	}
	m.seq(d.Children, n)
	if m.res.Fatal {
		return
	}
	if d.Target {
		m.res.Targets = append(m.res.Targets, n)
	}
}

// Greedy is the recursive definition of the documented greedy, non-backtracking matcher:
//
//	matchSeq(decls): for each declaration in order, repeat while count < max and the next unit
//	starts an instance of it: consume one instance (create the node, consume the unit(s) if
//	non-group, then matchSeq(children)); afterwards count < min is a fatal error.
//
// After the top-level sequence, leftover units are a fatal error and none is EOF. With
// o.RootRepeats (EDI) the top-level list as a whole may repeat: if the next unit starts the first
// top-level declaration a new round begins under a fresh root (pinned by the repo's test
// "multiple root level segments, success").
func Greedy(top []*HDecl, units []HUnit, o HOpts) HResult {
	m := &hMatcher{o: o, units: units}
	m.res.Consumed = make([]int, len(units))
	m.res.Rounds = 1
	m.seq(top, &HNode{Name: "#root"})
	for !m.res.Fatal && m.pos < len(units) {
		if o.RootRepeats && len(top) > 0 && m.starts(top[0]) {
			m.res.Rounds++
			m.seq(top, &HNode{Name: "#root"})
			continue
		}
		m.fail("unit " + strconv.Itoa(m.pos) + " ('" + units[m.pos].Tag + "') fits no declaration in order")
	}
	return m.res
}
