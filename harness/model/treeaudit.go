// Package model holds reference models and audits that several properties share.
//
// treeaudit.go: the link audit of an *idr.Node tree (DESIGN.md §4). It reads nothing but the exported
// fields of idr.Node, so it can be run on any tree a property gets hold of (records delivered by
// readers, trees built through CreateNode/AddChild, trees after RemoveAndReleaseTree of a part).
package model

import (
	"fmt"

	"github.com/jf-tech/omniparser/idr"
)

// MaxAuditNodes bounds every walk, so that a corrupted (cyclic) structure ends in an error, not in
// an endless loop.
const MaxAuditNodes = 1 << 20

// DescribeNode renders a node for messages. It deliberately leaves out the node ID and anything else
// that differs from run to run: rapid only shrinks a failure whose message reproduces.
func DescribeNode(n *idr.Node) string {
	if n == nil {
		return "<nil>"
	}
	d := n.Data
	if len(d) > 24 {
		d = d[:24] + "..."
	}
	return fmt.Sprintf("(%s %q)", n.Type, d)
}

// PathOf renders the position of n as child indexes from its topmost ancestor ("/" is the top,
// "/0/2" the third child of the first child of the top). Safe on corrupted structures (bounded).
func PathOf(n *idr.Node) string {
	if n == nil {
		return "<nil>"
	}
	var idx []int
	for depth := 0; n.Parent != nil; depth++ {
		if depth > 64 {
			return "/...(deep or cyclic)"
		}
		i := 0
		for s := n.PrevSibling; s != nil; s = s.PrevSibling {
			i++
			if i > 1<<16 {
				return "/...(cyclic siblings)"
			}
		}
		idx = append(idx, i)
		n = n.Parent
	}
	if len(idx) == 0 {
		return "/"
	}
	out := ""
	for i := len(idx) - 1; i >= 0; i-- {
		out += fmt.Sprintf("/%d", idx[i])
	}
	return out
}

// Top climbs from n to its topmost ancestor. A parent chain longer than MaxAuditNodes (a cycle) is
// an error.
func Top(n *idr.Node) (*idr.Node, error) {
	if n == nil {
		return nil, fmt.Errorf("nil node")
	}
	for i := 0; n.Parent != nil; i++ {
		if i > MaxAuditNodes {
			return nil, fmt.Errorf("parent chain does not end (cycle through Parent links)")
		}
		n = n.Parent
	}
	return n, nil
}

// AuditTree audits the whole tree n belongs to: it climbs to the topmost ancestor, requires that it
// has no siblings, and runs AuditSubtree on it.
func AuditTree(n *idr.Node) error {
	top, err := Top(n)
	if err != nil {
		return err
	}
	if top.PrevSibling != nil || top.NextSibling != nil {
		return fmt.Errorf("topmost node %s has sibling links (prev=%s next=%s)", DescribeNode(top), DescribeNode(top.PrevSibling), DescribeNode(top.NextSibling))
	}
	return AuditSubtree(top)
}

// AuditSubtree checks the structure below (and including) root; it makes no demand on root's own
// Parent / sibling links. For every node x reached:
//   - the forward walk FirstChild, NextSibling... visits each child once, every child has Parent == x
//     and PrevSibling == the child visited before it (nil for the first);
//   - LastChild is the last child of the forward walk (nil exactly when there is no child);
//   - the backward walk LastChild, PrevSibling... is the reverse of the forward walk;
//   - no node is reached twice (acyclic, no sharing between parents);
//   - node IDs are pairwise distinct.
func AuditSubtree(root *idr.Node) error {
	if root == nil {
		return fmt.Errorf("nil root")
	}
	type item struct {
		n    *idr.Node
		path string
	}
	at := func(it item) string {
		p := it.path
		if p == "" {
			p = "/"
		}
		return "node " + p + " " + DescribeNode(it.n)
	}
	seen := map[*idr.Node]string{root: "/"}
	ids := map[int64]string{root.ID: "/"}
	stack := []item{{root, ""}}
	var kids []item
	for len(stack) > 0 {
		x := stack[len(stack)-1]
		stack = stack[:len(stack)-1]
		kids = kids[:0]
		var prev *idr.Node
		for c := x.n.FirstChild; c != nil; c = c.NextSibling {
			ci := item{c, fmt.Sprintf("%s/%d", x.path, len(kids))}
			if first, twice := seen[c]; twice {
				return fmt.Errorf("%s is reachable twice (first as %s): cycle or shared node", at(ci), first)
			}
			seen[c] = ci.path
			if len(seen) > MaxAuditNodes {
				return fmt.Errorf("more than %d nodes reachable", MaxAuditNodes)
			}
			if other, dup := ids[c.ID]; dup {
				return fmt.Errorf("two nodes of one tree carry the same ID: node %s and %s", other, at(ci))
			}
			ids[c.ID] = ci.path
			if c.Parent != x.n {
				return fmt.Errorf("%s: its Parent link points to %s, not to the node it is a child of (%s)", at(ci), DescribeNode(c.Parent), at(x))
			}
			if c.PrevSibling != prev {
				return fmt.Errorf("%s: PrevSibling is %s, but the forward walk came from %s", at(ci), DescribeNode(c.PrevSibling), DescribeNode(prev))
			}
			kids = append(kids, ci)
			prev = c
		}
		if x.n.LastChild != prev {
			return fmt.Errorf("%s: LastChild is %s but the forward walk over its %d children ends at %s",
				at(x), DescribeNode(x.n.LastChild), len(kids), DescribeNode(prev))
		}
		i := len(kids) - 1
		for c := x.n.LastChild; c != nil; c = c.PrevSibling {
			if i < 0 || kids[i].n != c {
				return fmt.Errorf("%s: the backward walk from LastChild is not the reverse of the forward walk", at(x))
			}
			i--
		}
		if i != -1 {
			return fmt.Errorf("%s: the backward walk from LastChild misses %d of the %d children", at(x), i+1, len(kids))
		}
		// push in reverse so that nodes are processed in document order (messages are then stable)
		for j := len(kids) - 1; j >= 0; j-- {
			stack = append(stack, kids[j])
		}
	}
	return nil
}

// AuditAttrsFirst checks the XML convention the xpath navigator relies on: below every node,
// attribute children come before all other children. Call it after a successful AuditSubtree.
func AuditAttrsFirst(root *idr.Node) error {
	var err error
	Walk(root, func(x *idr.Node) {
		other := false
		for c := x.FirstChild; c != nil && err == nil; c = c.NextSibling {
			if c.Type == idr.AttributeNode {
				if other {
					err = fmt.Errorf("node %s %s: attribute child %s comes after a non-attribute child", PathOf(x), DescribeNode(x), DescribeNode(c))
				}
			} else {
				other = true
			}
		}
	})
	return err
}

// Walk visits the subtree in document order (pre-order). Only call it on a structure that passed
// AuditSubtree (it follows FirstChild/NextSibling without cycle protection beyond MaxAuditNodes).
func Walk(root *idr.Node, f func(*idr.Node)) {
	if root == nil {
		return
	}
	stack := []*idr.Node{root}
	for n := 0; len(stack) > 0 && n <= MaxAuditNodes; n++ {
		x := stack[len(stack)-1]
		stack = stack[:len(stack)-1]
		f(x)
		mark := len(stack)
		for c := x.FirstChild; c != nil; c = c.NextSibling {
			stack = append(stack, c)
		}
		for i, j := mark, len(stack)-1; i < j; i, j = i+1, j-1 {
			stack[i], stack[j] = stack[j], stack[i]
		}
	}
}

// Count returns the number of nodes in the subtree (after a successful audit).
func Count(root *idr.Node) int {
	n := 0
	Walk(root, func(*idr.Node) { n++ })
	return n
}
