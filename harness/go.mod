module verifharness

go 1.23

toolchain go1.23.5

require (
	github.com/antchfx/xmlquery v1.3.1
	github.com/antchfx/xpath v1.1.11
	github.com/dop251/goja v0.0.0-20230812105242-81d76064690d
	github.com/jf-tech/go-corelib v0.0.14
	github.com/jf-tech/omniparser v0.0.0
	pgregory.net/rapid v1.3.0
)

require (
	github.com/google/uuid v1.1.2 // indirect
	github.com/hashicorp/golang-lru v0.5.4 // indirect
	github.com/tkuchiki/go-timezone v0.2.0 // indirect
)

replace github.com/jf-tech/omniparser => /repo
