package props

// C03 — No panic, no hang: schemas and inputs are untrusted data.
// Validity monitors: recover() around every API call, a CPU-aware watchdog per case, and the bound
// "a finite input of n bytes reaches a terminal result within 2n+64 Reads".

import (
	"bytes"
	"encoding/json"
	"fmt"
	"os"
	"path/filepath"
	"runtime/debug"
	"sort"
	"strings"
	"sync"
	"syscall"
	"testing"
	"time"

	"github.com/jf-tech/omniparser"
	"github.com/jf-tech/omniparser/errs"
	"github.com/jf-tech/omniparser/transformctx"
	"pgregory.net/rapid"

	"verifharness/gen"
	"verifharness/obs"
)

// ---- corpus of valid (schema, input) pairs: the repo's samples ---------------------------------

type c03Sample struct {
	name   string
	schema []byte
	input  []byte
}

var (
	c03SamplesOnce sync.Once
	c03SampleList  []c03Sample
)

func c03RepoDir() string {
	if d := os.Getenv("VERIF_REPO"); d != "" {
		return d
	}
	return "/repo"
}

func c03Samples() []c03Sample {
	c03SamplesOnce.Do(func() {
		root := filepath.Join(c03RepoDir(), "extensions/omniv21/samples")
		schemas, _ := filepath.Glob(filepath.Join(root, "*", "*.schema.json"))
		sort.Strings(schemas)
		for _, sp := range schemas {
			sb, err := os.ReadFile(sp)
			if err != nil || len(sb) > 20000 {
				continue // the 300 KB x12 schema makes every case slow without adding shapes
			}
			prefix := strings.TrimSuffix(sp, ".schema.json")
			ins, _ := filepath.Glob(prefix + ".input.*")
			if len(ins) == 0 {
				continue
			}
			ib, err := os.ReadFile(ins[0])
			if err != nil {
				continue
			}
			if len(ib) > 4096 {
				ib = ib[:4096]
			}
			c03SampleList = append(c03SampleList, c03Sample{name: filepath.Base(filepath.Dir(sp)) + "/" + filepath.Base(sp), schema: sb, input: ib})
		}
	})
	return c03SampleList
}

// ---- schema mutation ------------------------------------------------------------------------

type c03Mut struct {
	Path int `json:"path"`
	Op   int `json:"op"`
	Arg  int `json:"arg"`
}

var c03Numbers = []string{"0", "-1", "1", "2", "3", "2147483648", "9223372036854775807", "9300000000000000000", "1e30", "1.5", "-2147483649", "100000"}
var c03Strings = []string{"", " ", "x", "FINAL_OUTPUT", "int", "\"", "\n", "\r", "�", "é", "..", "[", "(", "*", "?", "a|b", ".", "/", "//", "1", "true", "segment_group", "record_group", "envelope_group"}
var c03Delims = []string{"\"", "\r", "\n", "�", "é", "", "ab", " ", "\\", "|", "*", "\x00", "a", ":", "~", "'"}
var c03Types = []string{"int", "float", "boolean", "string", "segment", "segment_group", "record", "record_group", "envelope", "envelope_group", "bogus"}
var c03XPaths = []string{".[c0 > 3]", "*[. < 4]", ".[c1 = 1]", "a[@k>0]", "[", "..", ".", "//", "/", "*", "../..", "a[", "a[1", "count(", "//*", "a | b", "@x", "text()", "a/b/c", "'", "1 div 0", "/*/*", ".[", "position()", ""}
var c03Regexes = []string{"(", "[", "*", "^", "$", ".*", "", "(?P<", "\\", "a{2,1}", "^.{0}$"}
var c03Funcs = []string{"upper", "lower", "concat", "coalesce", "uuidv3", "copy", "dateTimeToRFC3339", "dateTimeLayoutToRFC3339", "dateTimeToEpoch", "epochToDateTimeRFC3339",
	"javascript", "javascript_with_context", "now", "nosuchfunc", "switch", "switchByPattern", "substring", "splitIntoJsonArray", "ifElse", "eval", "external", "containsPattern", "isEmpty", "floor"}
var c03Formats = []string{"csv", "csv2", "fixed-length", "fixedlength2", "edi", "json", "xml", "delimited", ""}

var c03NumericKeys = map[string]bool{"min": true, "max": true, "rows": true, "index": true, "start_pos": true, "length": true, "header_row_index": true,
	"data_row_index": true, "line_index": true, "component_index": true, "by_rows": true}
var c03RegexKeys = map[string]bool{"header": true, "footer": true, "line_pattern": true}

type c03Path []interface{}

func c03Walk(v interface{}, cur c03Path, out *[]c03Path) {
	switch t := v.(type) {
	case map[string]interface{}:
		keys := make([]string, 0, len(t))
		for k := range t {
			keys = append(keys, k)
		}
		sort.Strings(keys)
		for _, k := range keys {
			p := append(append(c03Path{}, cur...), k)
			*out = append(*out, p)
			c03Walk(t[k], p, out)
		}
	case []interface{}:
		for i := range t {
			p := append(append(c03Path{}, cur...), i)
			*out = append(*out, p)
			c03Walk(t[i], p, out)
		}
	}
}

func c03Get(root interface{}, p c03Path) interface{} {
	cur := root
	for _, k := range p {
		switch t := cur.(type) {
		case map[string]interface{}:
			cur = t[k.(string)]
		case []interface{}:
			i := k.(int)
			if i >= len(t) {
				return nil
			}
			cur = t[i]
		default:
			return nil
		}
	}
	return cur
}

func c03Clone(v interface{}) interface{} {
	b, _ := json.Marshal(v)
	d := json.NewDecoder(bytes.NewReader(b))
	d.UseNumber()
	var out interface{}
	_ = d.Decode(&out)
	return out
}

// c03Set replaces (or deletes, when del) the value at p; returns the new root.
func c03Set(root interface{}, p c03Path, val interface{}, del bool) interface{} {
	if len(p) == 0 {
		return val
	}
	parent := c03Get(root, p[:len(p)-1])
	last := p[len(p)-1]
	switch t := parent.(type) {
	case map[string]interface{}:
		if del {
			delete(t, last.(string))
		} else {
			t[last.(string)] = val
		}
	case []interface{}:
		i := last.(int)
		if i >= len(t) {
			return root
		}
		if del {
			nt := append(append([]interface{}{}, t[:i]...), t[i+1:]...)
			return c03Set(root, p[:len(p)-1], nt, false)
		}
		t[i] = val
	}
	return root
}

func pick(list []string, arg int) string { return list[((arg%len(list))+len(list))%len(list)] }

// c03DeclSurgery (op 12) edits one record / envelope / segment declaration of the file_declaration in a way that keeps
// it close to valid: a second target, a missing name, occurrence bounds of zero.
func c03DeclSurgery(root interface{}, m c03Mut) interface{} {
	var decls []map[string]interface{}
	var walk func(v interface{}, underDecls bool)
	walk = func(v interface{}, underDecls bool) {
		switch t := v.(type) {
		case map[string]interface{}:
			if underDecls {
				decls = append(decls, t)
			}
			for k, c := range t {
				switch k {
				case "records", "child_records", "envelopes", "child_envelopes", "segment_declarations", "child_segments":
					if arr, ok := c.([]interface{}); ok {
						for _, e := range arr {
							walk(e, true)
						}
					}
				default:
					walk(c, false)
				}
			}
		case []interface{}:
			for _, e := range t {
				walk(e, false)
			}
		}
	}
	if top, ok := root.(map[string]interface{}); ok {
		walk(top["file_declaration"], false)
	}
	if len(decls) == 0 {
		return root
	}
	d := decls[((m.Path%len(decls))+len(decls))%len(decls)]
	switch ((m.Arg % 7) + 7) % 7 {
	case 0:
		d["is_target"] = true
	case 1:
		delete(d, "name")
	case 2:
		d["max"] = json.Number("0")
	case 3:
		d["min"], d["max"] = json.Number("0"), json.Number("0")
	case 4:
		d["max"] = json.Number("1")
	case 5:
		delete(decls[0], "name")
		decls[0]["is_target"] = true
		d["is_target"] = true
		d["max"] = json.Number("1")
	default:
		delete(d, "is_target")
	}
	return root
}

func c03Apply(root interface{}, m c03Mut) interface{} {
	if m.Op == 12 {
		return c03DeclSurgery(root, m)
	}
	var paths []c03Path
	c03Walk(root, nil, &paths)
	if len(paths) == 0 {
		return root
	}
	p := paths[((m.Path%len(paths))+len(paths))%len(paths)]
	if op := ((m.Op % 12) + 12) % 12; op == 9 {
		// type-aware mutations aim at the keys they know about
		var aware []c03Path
		for _, q := range paths {
			k, _ := q[len(q)-1].(string)
			if c03NumericKeys[k] || c03RegexKeys[k] || k == "type" || strings.HasSuffix(k, "delimiter") || k == "release_character" ||
				k == "xpath" || k == "template" || k == "args" || k == "const" || k == "ignore_crlf" ||
				(k == "name" && len(q) >= 2 && q[len(q)-2] == "custom_func") {
				aware = append(aware, q)
			}
		}
		if len(aware) > 0 {
			p = aware[((m.Path%len(aware))+len(aware))%len(aware)]
		}
	}
	key, _ := p[len(p)-1].(string)
	cur := c03Get(root, p)
	switch ((m.Op % 12) + 12) % 12 {
	case 0:
		return c03Set(root, p, nil, true)
	case 1:
		return c03Set(root, p, nil, false)
	case 2:
		return c03Set(root, p, json.Number(pick(c03Numbers, m.Arg)), false)
	case 3:
		return c03Set(root, p, pick(c03Strings, m.Arg), false)
	case 4:
		return c03Set(root, p, []interface{}{}, false)
	case 5:
		return c03Set(root, p, map[string]interface{}{}, false)
	case 6:
		return c03Set(root, p, m.Arg%2 == 0, false)
	case 7:
		q := paths[((m.Arg%len(paths))+len(paths))%len(paths)]
		return c03Set(root, p, c03Clone(c03Get(root, q)), false)
	case 8:
		if arr, ok := cur.([]interface{}); ok && len(arr) > 0 {
			return c03Set(root, p, append(arr, c03Clone(arr[m.Arg%len(arr)])), false)
		}
		return c03Set(root, p, []interface{}{c03Clone(cur), c03Clone(cur)}, false)
	case 9, 10:
		// type-aware replacement: keeps the schema close to valid, so that it is accepted more often
		switch {
		case c03NumericKeys[key]:
			return c03Set(root, p, json.Number(pick(c03Numbers, m.Arg)), false)
		case key == "type":
			return c03Set(root, p, pick(c03Types, m.Arg), false)
		case strings.HasSuffix(key, "delimiter") || key == "release_character":
			return c03Set(root, p, pick(c03Delims, m.Arg), false)
		case key == "xpath":
			return c03Set(root, p, pick(c03XPaths, m.Arg), false)
		case c03RegexKeys[key]:
			return c03Set(root, p, pick(c03Regexes, m.Arg), false)
		case key == "name" && len(p) >= 2 && p[len(p)-2] == "custom_func":
			return c03Set(root, p, pick(c03Funcs, m.Arg), false)
		case key == "template":
			return c03Set(root, p, pick([]string{"FINAL_OUTPUT", "cyc", "nosuch", ""}, m.Arg), false)
		case key == "file_format_type":
			return c03Set(root, p, pick(c03Formats, m.Arg), false)
		case key == "encoding":
			return c03Set(root, p, pick([]string{"utf-8", "iso-8859-1", "windows-1252", "utf-16", ""}, m.Arg), false)
		case key == "args":
			arr, _ := cur.([]interface{})
			switch m.Arg % 5 {
			case 4:
				// a surplus argument WITHOUT a value (an xpath that matches nothing)
				return c03Set(root, p, append(arr, map[string]interface{}{"xpath": "nosuch"}), false)
			case 0:
				if len(arr) > 0 {
					return c03Set(root, p, arr[:len(arr)-1], false)
				}
			case 1:
				return c03Set(root, p, append(arr, map[string]interface{}{"const": "extra"}), false)
			case 2:
				return c03Set(root, p, append(arr, map[string]interface{}{"const": "1", "type": "int"}), false)
			default:
				return c03Set(root, p, []interface{}{}, false)
			}
			return root
		case key == "const" || key == "external":
			return c03Set(root, p, pick(c03Strings, m.Arg), false)
		default:
			if _, ok := cur.(map[string]interface{}); ok {
				// turn a declaration into something else of the transform grammar
				repl := []interface{}{
					map[string]interface{}{"template": "cyc"},
					map[string]interface{}{"xpath_dynamic": map[string]interface{}{"const": "."}, "object": map[string]interface{}{}},
					map[string]interface{}{"xpath_dynamic": map[string]interface{}{"object": map[string]interface{}{"a": nil}}},
					map[string]interface{}{"custom_func": map[string]interface{}{"name": pick(c03Funcs, m.Arg), "args": []interface{}{}}},
					map[string]interface{}{"custom_func": map[string]interface{}{"name": pick(c03Funcs, m.Arg), "args": []interface{}{map[string]interface{}{"const": "1", "type": "int"}, map[string]interface{}{"array": []interface{}{}}}}},
					map[string]interface{}{"array": []interface{}{nil}},
					map[string]interface{}{"object": map[string]interface{}{"k": nil}},
					map[string]interface{}{"const": "c", "type": "int"},
					map[string]interface{}{"xpath": ".", "type": "float", "keep_empty_or_null": true},
				}
				return c03Set(root, p, repl[m.Arg%len(repl)], false)
			}
			return c03Set(root, p, pick(c03Strings, m.Arg), false)
		}
	default:
		// template cycle: cyc -> cyc2 -> cyc, referenced from the chosen place
		if top, ok := root.(map[string]interface{}); ok {
			if td, ok := top["transform_declarations"].(map[string]interface{}); ok {
				switch m.Arg % 4 {
				case 0: // through object and array
					td["cyc"] = map[string]interface{}{"object": map[string]interface{}{"x": map[string]interface{}{"template": "cyc2"}}}
					td["cyc2"] = map[string]interface{}{"array": []interface{}{map[string]interface{}{"template": "cyc"}}}
				case 1: // through an xpath_dynamic edge
					td["cyc"] = map[string]interface{}{"xpath_dynamic": map[string]interface{}{"template": "cyc"}}
				case 2: // xpath_dynamic -> custom_func argument -> back
					td["cyc"] = map[string]interface{}{"xpath_dynamic": map[string]interface{}{"template": "cyc2"}}
					td["cyc2"] = map[string]interface{}{"custom_func": map[string]interface{}{"name": "concat", "args": []interface{}{map[string]interface{}{"template": "cyc"}}}}
				default: // self reference through a custom_func argument
					td["cyc"] = map[string]interface{}{"custom_func": map[string]interface{}{"name": "upper", "args": []interface{}{map[string]interface{}{"template": "cyc"}}}}
				}
				if _, isMap := cur.(map[string]interface{}); isMap && len(p) > 1 {
					return c03Set(root, p, map[string]interface{}{"template": "cyc"}, false)
				}
			}
		}
		return root
	}
}

// ---- case -----------------------------------------------------------------------------------

type c03Case struct {
	Base    string    `json:"base"` // sample | shape
	Sample  int       `json:"sample"`
	Shape   gen.Shape `json:"shape"`
	Recs    []gen.Rec `json:"recs"`
	Muts    []c03Mut  `json:"muts"`
	InKind  int       `json:"in_kind"` // 0 matching input, 1 malformed (Mals), 2 input of another sample, 3 two copies, 4 binary noise, 5 huge line, 6 empty, 7 behind another prolog (c03Prologs[Other])
	Mals    []malform `json:"mals,omitempty"`
	Other   int       `json:"other"`
	Noise   []byte    `json:"noise,omitempty"`
	RawSch  []byte    `json:"raw_schema,omitempty"` // when set (byte-level fuzzing / hand-written regressions) used verbatim
	RawIn   []byte    `json:"raw_input,omitempty"`
	UseRaw  bool      `json:"use_raw,omitempty"`
	Comment string    `json:"comment,omitempty"`
}

func genC03(t *rapid.T) c03Case {
	c := c03Case{}
	ns := len(c03Samples())
	if ns > 0 && rapid.Bool().Draw(t, "fromSample") {
		c.Base = "sample"
		c.Sample = rapid.IntRange(0, ns-1).Draw(t, "sample")
	} else {
		c.Base = "shape"
		c.Shape = gen.DrawShape(t, gen.ShapeOpts{MaxXform: 3, AllowReplaceQuotes: true})
		c.Recs = gen.DrawRecs(t, c.Shape, "r", 0, 4, gen.ValueOpts{})
	}
	nm := rapid.SampledFrom([]int{0, 0, 0, 1, 1, 1, 1, 1, 2, 2, 3, 4}).Draw(t, "nmuts")
	for i := 0; i < nm; i++ {
		c.Muts = append(c.Muts, c03Mut{
			// (two draws each: rapid's integer draws favour the ends of a range, the sum is spread out)
			Path: rapid.IntRange(0, 2500).Draw(t, fmt.Sprintf("m%dpath", i)) + rapid.IntRange(0, 2500).Draw(t, fmt.Sprintf("m%dpathB", i)),
			Op:   rapid.SampledFrom([]int{0, 1, 2, 3, 4, 5, 6, 7, 8, 9, 9, 9, 9, 9, 9, 9, 9, 9, 9, 9, 9, 10, 10, 10, 10, 10, 10, 11, 12, 12, 12, 12, 12}).Draw(t, fmt.Sprintf("m%dop", i)),
			Arg:  rapid.IntRange(0, 2500).Draw(t, fmt.Sprintf("m%darg", i)) + rapid.IntRange(0, 2500).Draw(t, fmt.Sprintf("m%dargB", i)),
		})
	}
	c.InKind = rapid.SampledFrom([]int{0, 0, 0, 1, 1, 1, 1, 2, 3, 4, 5, 6, 7}).Draw(t, "inKind")
	if c.InKind == 7 {
		c.Other = rapid.IntRange(0, len(c03Prologs)-1).Draw(t, "prolog")
	}
	switch c.InKind {
	case 1:
		n := rapid.IntRange(1, 2).Draw(t, "nmal")
		for i := 0; i < n; i++ {
			m := malform{Kind: rapid.IntRange(1, 3).Draw(t, fmt.Sprintf("mal%dkind", i)), Off: rapid.IntRange(0, 4096).Draw(t, fmt.Sprintf("mal%doff", i))}
			m.B = rapid.SampledFrom([]byte{'"', '\n', '<', '{', 0xff, 0x00, '~', '*', ',', '}', ']', '&', '[', ':', '\\', '\r'}).Draw(t, fmt.Sprintf("mal%dbyte", i))
			m.Ins = []byte(rapid.SampledFrom([]string{"\"", "\n\n", "<x>", "}{", "\xff\xfe", "~~", ",,,", "\r", "</rec>", "]", "</root>", "XYZ*1~", "{\"a\":1} {\"a\":2}", "[[", "<a><a>", "]]>", "<!--", "&#0;", "\\u", "ISA*", "\x1b", "\xef\xbb\xbf",
				// XML prologs (effective at offset 0): encoding labels incl. aliases of utf-8 and unknown ones, other versions, DTDs
				`<?xml version="1.0" encoding="utf8"?>`, `<?xml version="1.0" encoding="UTF8"?>`, `<?xml version="1.0" encoding="unicode-1-1-utf-8"?>`,
				`<?xml version="1.0" encoding="ISO-8859-1"?>`, `<?xml version="1.0" encoding="UTF-16"?>`, `<?xml version="1.0" encoding="no-such-charset"?>`,
				`<?xml version="1.0" encoding=""?>`, `<?xml version="1.1"?>`, `<!DOCTYPE r [<!ENTITY e "v">]>`, `<r xmlns:p="">`, `<p:r xmlns:p="u"/>`, "&e;", "<![CDATA[",
				// JSON / EDI / CSV oddities
				"[[[[[[[[[[[[[[[[[[[[[[[[[[[[[[[[", "1e999999", `"\ud800"`, "{\"\":{\"\":[]}}", "\x00", "ISA*00*~IEA~", "?~", "\"\"\"", "\r\r\n"}).Draw(t, fmt.Sprintf("mal%dins", i)))
			c.Mals = append(c.Mals, m)
		}
	case 2:
		if ns > 0 {
			c.Other = rapid.IntRange(0, ns-1).Draw(t, "otherSample")
		}
	case 4:
		c.Noise = rapid.SliceOfN(rapid.Byte(), 0, 200).Draw(t, "noise")
	}
	return c
}

// c03Prologs: what a producer may put in front of a document - XML declarations with all sorts of encoding labels and
// versions, a DTD, byte-order marks of several encodings, blank lines.
var c03Prologs = []string{
	`<?xml version="1.0" encoding="utf8"?>`, `<?xml version="1.0" encoding="UTF8"?>`, `<?xml version="1.0" encoding="unicode-1-1-utf-8"?>`,
	`<?xml version="1.0" encoding="utf-8"?>`, `<?xml version="1.0" encoding="ISO-8859-1"?>`, `<?xml version="1.0" encoding="latin1"?>`,
	`<?xml version="1.0" encoding="UTF-16"?>`, `<?xml version="1.0" encoding="no-such-charset"?>`, `<?xml version="1.0" encoding=""?>`,
	`<?xml version="1.1"?>`, `<?xml version="1.0" standalone="yes"?>`, `<!DOCTYPE r [<!ENTITY e "v">]>`, `<?xml version="1.0"?><!-- c --><?pi x?>`,
	"\xef\xbb\xbf", "\xff\xfe", "\xfe\xff", "\xef\xbb\xbf\xef\xbb\xbf", "\n\n", " ", "\x00",
}

func (c c03Case) build() (schema []byte, input []byte, mutated bool) {
	if c.UseRaw {
		return c.RawSch, c.RawIn, true
	}
	var base, in []byte
	if c.Base == "sample" {
		ss := c03Samples()
		if len(ss) == 0 {
			return nil, nil, false
		}
		s := ss[c.Sample%len(ss)]
		base, in = s.schema, s.input
	} else {
		base, in = []byte(c.Shape.Schema()), c.Shape.Render(c.Recs)
	}
	d := json.NewDecoder(bytes.NewReader(base))
	d.UseNumber()
	var root interface{}
	if err := d.Decode(&root); err != nil {
		return base, in, false
	}
	for _, m := range c.Muts {
		root = c03Apply(root, m)
	}
	schema, err := json.Marshal(root)
	if err != nil {
		schema = base
	}
	switch c.InKind {
	case 1:
		for _, m := range c.Mals {
			in = m.apply(in)
		}
	case 2:
		if ss := c03Samples(); len(ss) > 0 {
			in = ss[c.Other%len(ss)].input
		}
	case 3:
		in = append(append([]byte{}, in...), in...)
	case 4:
		in = c.Noise
	case 5:
		in = append(append([]byte{}, in...), bytes.Repeat([]byte("a"), 70000)...)
	case 6:
		in = nil
	case 7:
		// the matching input behind another prolog (an XML declaration replaces the input's own, if any)
		body := in
		if bytes.HasPrefix(body, []byte("<?xml")) {
			if i := bytes.Index(body, []byte("?>")); i >= 0 {
				body = body[i+2:]
			}
		}
		in = append([]byte(c03Prologs[c.Other%len(c03Prologs)]), body...)
	}
	return schema, in, len(c.Muts) > 0
}

// c03Guard runs f under recover and returns the panic (with stack) as text.
func c03Guard(what string, f func()) (msg string) {
	defer func() {
		if p := recover(); p != nil {
			msg = fmt.Sprintf("panic in %s: %v\n%s", what, p, obs.CleanStack(debug.Stack()))
		}
	}()
	f()
	return ""
}

func c03CPU() time.Duration {
	var ru syscall.Rusage
	if syscall.Getrusage(syscall.RUSAGE_SELF, &ru) != nil {
		return 0
	}
	return time.Duration(ru.Utime.Nano() + ru.Stime.Nano())
}

const (
	c03WallLimit = 20 * time.Second
	c03CPULimit  = 10 * time.Second
)

func checkC03(c c03Case) obs.Result {
	cur := obs.NoteCurrent("C03", c)
	done := make(chan obs.Result, 1)
	cpu0 := c03CPU()
	go func() { done <- c03Inner(c) }()
	select {
	case r := <-done:
		return r
	case <-time.After(c03WallLimit):
		used := c03CPU() - cpu0
		if used >= c03CPULimit {
			// a call is spinning: it cannot be stopped, so report and leave the process
			fmt.Printf("\nHANG-VIOLATION file=%s\n", cur)
			fmt.Printf("a call did not return within %v wall time while the process burnt %v CPU\n", c03WallLimit, used)
			os.Stdout.Sync()
			os.Exit(3)
		}
		fmt.Printf("\nINCONCLUSIVE-STARVED: case exceeded %v wall time with only %v CPU\n", c03WallLimit, used)
		os.Exit(4)
	}
	return obs.Result{}
}

func c03Inner(c c03Case) obs.Result {
	schema, in, mutated := c.build()
	classes := []string{"base=" + c.Base, fmt.Sprintf("input-kind=%d", c.InKind)}
	if mutated {
		classes = append(classes, "mutated-schema")
	}
	var sch omniparser.Schema
	var err error
	if msg := c03Guard("NewSchema", func() { sch, err = omniparser.NewSchema("schema", bytes.NewReader(schema)) }); msg != "" {
		return c03Verdict(c, schema, in, msg, classes)
	}
	if err != nil {
		return obs.OK(false, append(classes, "schema-rejected")...)
	}
	if sch == nil {
		return obs.Violationf("NewSchema returned (nil, nil)\nschema %s", schema)
	}
	accepted := mutated
	if accepted {
		classes = append(classes, "accepted-mutant")
	}
	var tr omniparser.Transform
	if msg := c03Guard("NewTransform", func() {
		tr, err = sch.NewTransform("input", bytes.NewReader(in), &transformctx.Ctx{ExternalProperties: map[string]string{"x": "y"}})
	}); msg != "" {
		return c03Verdict(c, schema, in, msg, classes)
	}
	if err != nil {
		return obs.OK(accepted, append(classes, "newtransform-rejected")...)
	}
	bound := 2*len(in) + 64
	reads := 0
	nrec, nfail := 0, 0
	for ; reads < bound; reads++ {
		var b []byte
		var rerr error
		if msg := c03Guard("Read", func() { b, rerr = tr.Read() }); msg != "" {
			return c03Verdict(c, schema, in, msg, classes)
		}
		_ = b
		if rerr == nil {
			nrec++
			if msg := c03Guard("RawRecord/Checksum", func() {
				if rr, e := tr.RawRecord(); e == nil && rr != nil {
					_ = rr.Checksum()
				}
			}); msg != "" {
				return c03Verdict(c, schema, in, msg, classes)
			}
			continue
		}
		if errs.IsErrTransformFailed(rerr) {
			nfail++
			continue
		}
		break
	}
	if reads >= bound {
		msg := fmt.Sprintf("no terminal result within %d Reads on an input of %d bytes (%d records, %d per-record failures so far)", bound, len(in), nrec, nfail)
		return c03Verdict(c, schema, in, msg, classes)
	}
	malformed := c.InKind != 0
	if malformed {
		classes = append(classes, "malformed-input")
	}
	return obs.OK(accepted || (malformed && reads >= 1), classes...)
}

// c03Verdict turns a monitor message into a violation, unless it has exactly the shape of an open known finding.
func c03Verdict(c c03Case, schema, in []byte, msg string, classes []string) obs.Result {
	for _, k := range c03Known {
		if obs.KnownOpen(k.id) && k.match(msg, schema, in) {
			return obs.Result{Known: k.id, Classes: classes}
		}
	}
	s := string(schema)
	if len(s) > 4000 {
		s = s[:4000] + "...(truncated)"
	}
	i := string(in)
	if len(i) > 600 {
		i = i[:600] + "...(truncated)"
	}
	return obs.Violationf("%s\nschema %s\ninput %q", msg, s, i)
}

type c03KnownMatcher struct {
	id    string
	match func(msg string, schema, in []byte) bool
}

// c03Known lists the narrow matchers of open findings (none enabled unless listed as open in known_findings.json).
var c03Known = []c03KnownMatcher{
	// dependency antchfx/xpath v1.1.11: Select on an expression whose top level is a scalar (zero-argument function,
	// comparison, arithmetic, boolean) dereferences nil
	{id: "c03-xpath-scalar-expression-as-query-panics", match: func(msg string, schema, in []byte) bool {
		if !strings.HasPrefix(msg, "panic in ") || !strings.Contains(msg, "nil pointer dereference") {
			return false
		}
		for _, frame := range []string{"antchfx/xpath.(*functionQuery).Clone", "antchfx/xpath.(*logicalQuery).Select",
			"antchfx/xpath.(*numericQuery).Select", "antchfx/xpath.(*booleanQuery).Select"} {
			if strings.Contains(msg, frame) {
				return true
			}
		}
		return false
	}},
}

func TestC03(t *testing.T) {
	obs.Run(t, "C03", genC03, checkC03)
}
