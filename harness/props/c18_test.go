package props

// C18 — Declared input encodings and byte-order marks are handled transparently (metamorphic +
// hard-coded code pages).

import (
	"bytes"
	"fmt"
	"io"
	"strings"
	"testing"
	"unicode/utf8"

	"pgregory.net/rapid"

	"verifharness/gen"
	"verifharness/obs"
	"verifharness/run"
)

// c18CP1252 is the 0x80..0x9F row of CP1252.TXT (0 = unassigned), hard-coded (not taken from x/text).
var c18CP1252 = [32]rune{
	0x20AC, 0, 0x201A, 0x0192, 0x201E, 0x2026, 0x2020, 0x2021, 0x02C6, 0x2030, 0x0160, 0x2039, 0x0152, 0, 0x017D, 0,
	0, 0x2018, 0x2019, 0x201C, 0x201D, 0x2022, 0x2013, 0x2014, 0x02DC, 0x2122, 0x0161, 0x203A, 0x0153, 0, 0x017E, 0x0178,
}

type c18Case struct {
	Shape    gen.Shape `json:"shape"`
	Recs     []gen.Rec `json:"recs"`     // values use only code points < 256: one byte each in the single-byte input
	Encoding string    `json:"encoding"` // iso-8859-1 | windows-1252 | utf-8
	BOM      bool      `json:"bom"`      // utf-8 only
	// RawBOMBytes (single-byte encodings): the input starts with the bytes EF BB BF, which in those code pages are
	// three ordinary characters, not a byte-order mark
	RawBOMBytes bool `json:"raw_bom_bytes,omitempty"`
	// RawLead (single-byte encodings): 1.. the input starts with the bytes of another encoding's byte-order mark
	// (c18Leads), which are ordinary characters in the declared code page (the declared encoding is authoritative)
	RawLead  int          `json:"raw_lead,omitempty"`
	Schedule run.Schedule `json:"schedule"`
}

var c18Leads = [][]byte{nil, {0xFF, 0xFE}, {0xFE, 0xFF}, {0xFF, 0xFE, 0x00, 0x00}, {0x00, 0x00, 0xFE, 0xFF}, {0x2B, 0x2F, 0x76, 0x38}, {0xF7, 0x64, 0x4C}}

// c18Inject overwrites up to three characters of v with characters of 0x80..0xFF. utf8Like: whole groups of characters
// whose single-byte encoding happens to be a well-formed UTF-8 sequence ("Ã©" = C3 A9, "â‚¬" = E2 82 AC in windows-1252):
// the declared encoding is authoritative, such input is NOT to be taken for UTF-8.
func c18Inject(t *rapid.T, v, label string, utf8Like bool) string {
	rs := []rune(v)
	if len(rs) == 0 {
		return v
	}
	k := rapid.IntRange(0, 3).Draw(t, label+"k")
	if utf8Like {
		for i := 0; i < k; i++ {
			seq := rapid.SampledFrom([][]rune{{0xC3, 0xA9}, {0xC2, 0xA0}, {0xC3, 0xBC}, {0xE2, 0x82, 0xAC}, {0xC5, 0x93}}).Draw(t, label+"seq")
			if len(rs) < len(seq) {
				continue
			}
			pos := rapid.IntRange(0, len(rs)-len(seq)).Draw(t, label+"seqpos")
			// keep earlier groups intact: only write onto ASCII
			free := true
			for j := range seq {
				if rs[pos+j] >= 0x80 {
					free = false
				}
			}
			if free {
				copy(rs[pos:], seq)
			}
		}
		return string(rs)
	}
	for i := 0; i < k; i++ {
		pos := rapid.IntRange(0, len(rs)-1).Draw(t, label+"pos")
		var r rune
		switch rapid.IntRange(0, 4).Draw(t, label+"cls") {
		case 0:
			r = rune(rapid.SampledFrom([]int{0x81, 0x8D, 0x8F, 0x90, 0x9D}).Draw(t, label+"undef"))
		case 1:
			r = rune(rapid.IntRange(0x80, 0x9F).Draw(t, label+"c1"))
		case 2:
			// the top of the ASCII range and the first code points after it (off-by-one territory of hand-written decoders)
			r = rune(rapid.SampledFrom([]int{0x7F, 0x7E, 0x80, 0xA0, 0xFF}).Draw(t, label+"edge"))
		default:
			r = rune(rapid.IntRange(0xA0, 0xFF).Draw(t, label+"hi"))
		}
		rs[pos] = r
	}
	return string(rs)
}

func genC18(t *rapid.T) c18Case {
	c := c18Case{}
	c.Shape = gen.DrawShape(t, gen.ShapeOpts{NoJS: true})
	if c.Shape.Delim == "§" {
		c.Shape.Delim = "|"
	}
	c.Encoding = rapid.SampledFrom([]string{"iso-8859-1", "windows-1252", "utf-8"}).Draw(t, "enc")
	if c.Shape.Format == "xml" && rapid.IntRange(0, 2).Draw(t, "xmlDecl") == 0 {
		// an XML declaration with its own encoding label: the xml decoder applies it to what it is given, on both sides
		// of the relation alike
		c.Shape.XMLDecl = rapid.SampledFrom([]string{"ISO-8859-1", "windows-1252", "latin1", "UTF-8", "utf8", "us-ascii"}).Draw(t, "xmlDeclLabel")
	}
	utf8Like := rapid.IntRange(0, 5).Draw(t, "utf8Like") == 0
	minRecs := 1
	if c.Encoding == "utf-8" {
		minRecs = 0 // also "a byte-order mark and nothing else"
	}
	c.Recs = gen.DrawRecs(t, c.Shape, "r", minRecs, 5, gen.ValueOpts{ASCIIOnly: true, MaxLen: 8})
	for i := range c.Recs {
		for j := range c.Recs[i].Vals {
			if j == c.Shape.IntCol || (j == 0 && c.Shape.Filter) {
				continue
			}
			c.Recs[i].Vals[j] = c18Inject(t, c.Recs[i].Vals[j], fmt.Sprintf("i%d_%d", i, j), utf8Like)
		}
		for k := range c.Recs[i].Subs {
			for l := range c.Recs[i].Subs[k] {
				c.Recs[i].Subs[k][l] = c18Inject(t, c.Recs[i].Subs[k][l], fmt.Sprintf("s%d_%d_%d", i, k, l), utf8Like)
			}
		}
	}
	// long ASCII run in front of high bytes: the decoded characters then straddle the 4096 / 8192 byte buffer boundaries
	// of the readers stacked on the decoder
	if len(c.Recs) > 0 && len(c.Shape.Widths) == 0 && rapid.IntRange(0, 3).Draw(t, "padToBuffer") == 0 {
		col := -1
		for j := range c.Recs[0].Vals {
			if j != c.Shape.IntCol && !(j == 0 && c.Shape.Filter) {
				col = j
			}
		}
		if col >= 0 {
			n := rapid.SampledFrom([]int{4096, 8192}).Draw(t, "padBase") - rapid.IntRange(0, 60).Draw(t, "padBack")
			hi := make([]rune, rapid.IntRange(1, 6).Draw(t, "padHiN"))
			for i := range hi {
				hi[i] = rune(rapid.SampledFrom([]int{0x80, 0x99, 0x85, 0x8c, 0xe9, 0xff, 0x81, 0xa0}).Draw(t, fmt.Sprintf("padHi%d", i)))
			}
			c.Recs[0].Vals[col] = strings.Repeat("a", n) + string(hi) + c.Recs[0].Vals[col]
		}
	}
	if c.Encoding == "utf-8" {
		c.BOM = rapid.Bool().Draw(t, "bom")
	} else {
		c.RawBOMBytes = rapid.IntRange(0, 4).Draw(t, "rawBomBytes") == 0
		if !c.RawBOMBytes && rapid.IntRange(0, 4).Draw(t, "rawLead") == 0 {
			c.RawLead = rapid.IntRange(1, len(c18Leads)-1).Draw(t, "rawLeadKind")
		}
	}
	if rapid.Bool().Draw(t, "chunked") {
		c.Schedule = run.Schedule{Sizes: []int{1}}
	} else {
		c.Schedule = run.Schedule{Sizes: []int{1 << 20}}
	}
	return c
}

// c18SingleByte encodes text whose runes are all < 256 as one byte per rune.
func c18SingleByte(text []byte) ([]byte, bool) {
	out := make([]byte, 0, len(text))
	for len(text) > 0 {
		r, sz := utf8.DecodeRune(text)
		if r >= 256 || (r == utf8.RuneError && sz == 1) {
			return nil, false
		}
		out = append(out, byte(r))
		text = text[sz:]
	}
	return out, true
}

// c18Decode converts single-byte input to UTF-8 with the hard-coded code page. undefinedAsC1 selects
// the alternative mapping of the five unassigned windows-1252 bytes (C1 control instead of U+FFFD).
func c18Decode(b []byte, enc string, undefinedAsC1 bool) []byte {
	var out []byte
	for _, x := range b {
		r := rune(x)
		if enc == "windows-1252" && x >= 0x80 && x <= 0x9F {
			r = c18CP1252[x-0x80]
			if r == 0 {
				r = 0xFFFD
				if undefinedAsC1 {
					r = rune(x)
				}
			}
		}
		out = utf8.AppendRune(out, r)
	}
	return out
}

// c18GateReader runs first() once, inside its first Read, before any byte is delivered.
type c18GateReader struct {
	inner io.Reader
	first func()
}

func (g *c18GateReader) Read(p []byte) (int, error) {
	if f := g.first; f != nil {
		g.first = nil
		f()
	}
	return g.inner.Read(p)
}

func checkC18(c c18Case) obs.Result {
	classes := []string{"format=" + c.Shape.Format, "enc=" + c.Encoding}
	text := c.Shape.Render(c.Recs) // UTF-8, all runes < 256
	sUTF := c.Shape
	sUTF.Encoding = "utf-8"
	schUTF, err := run.NewSchema(sUTF.Schema())
	if err != nil {
		return obs.Violationf("generated schema rejected: %v", err)
	}
	key := maskedKey(c.Shape.Format)
	runIt := func(schema string, in []byte) ([]run.Step, error) {
		sch, err := run.NewSchema(schema)
		if err != nil {
			return nil, err
		}
		return run.Transcript(sch, run.NewChunkReader(in, c.Schedule), run.Opts{InputLen: len(in)})
	}
	nrec := func(steps []run.Step) int {
		n := 0
		for _, s := range steps {
			if s.Kind == "rec" {
				n++
			}
		}
		return n
	}
	if c.Encoding == "utf-8" {
		ref, err := run.Transcript(schUTF, bytes.NewReader(text), run.Opts{InputLen: len(text)})
		if err != nil {
			return obs.Result{Excluded: "no terminal result"}
		}
		// default encoding == utf-8
		sDef := c.Shape
		sDef.Encoding = ""
		def, err := runIt(sDef.Schema(), text)
		if err != nil {
			return obs.Violationf("run without declared encoding: %v", err)
		}
		if d := run.Diff(ref, def, key); d != "" {
			return obs.Violationf("omitting parser_settings.encoding differs from declaring utf-8:\n%s\ninput %q", d, text)
		}
		if c.BOM {
			withBOM := append([]byte{0xEF, 0xBB, 0xBF}, text...)
			got, err := runIt(sUTF.Schema(), withBOM)
			if err != nil {
				return obs.Violationf("run with BOM: %v", err)
			}
			if d := run.Diff(ref, got, key); d != "" {
				return obs.Violationf("a leading UTF-8 BOM changes the results (A without BOM, B with BOM):\n%s\ninput %q", d, withBOM)
			}
			for _, st := range got {
				if strings.ContainsRune(st.JSON, 0xFEFF) {
					return obs.Violationf("BOM appears in output %s", st.JSON)
				}
			}
			classes = append(classes, "bom")
			// the same with another transform opened (and read to its end) while this one is being opened: the source's
			// first Read - NewTransform is waiting in it for the first bytes - runs a second transform of the same Schema
			// over the same bytes before it delivers anything (two uploads whose openings overlap in time)
			gate := &c18GateReader{inner: bytes.NewReader(withBOM)}
			gate.first = func() {
				_, _ = run.Transcript(schUTF, bytes.NewReader(withBOM), run.Opts{InputLen: len(withBOM)})
			}
			ov, err := run.Transcript(schUTF, gate, run.Opts{InputLen: len(withBOM)})
			if err != nil {
				return obs.Violationf("run with BOM, another transform opened during NewTransform: %v", err)
			}
			if d := run.Diff(ref, ov, key); d != "" {
				return obs.Violationf("a leading UTF-8 BOM changes the results when another transform is opened while this one waits for its first bytes (A without BOM, B with BOM and an overlapping opening):\n%s\ninput %q", d, withBOM)
			}
			if gate.first == nil {
				classes = append(classes, "bom+overlapping-open")
			}
		}
		hi := false
		for _, b := range text {
			if b >= 0x80 {
				hi = true
			}
		}
		return obs.OK((hi || c.BOM) && nrec(ref) >= 1, classes...)
	}
	single, ok := c18SingleByte(text)
	if !ok {
		return obs.Result{Excluded: "value outside the single-byte range"}
	}
	if c.RawBOMBytes {
		single = append([]byte{0xEF, 0xBB, 0xBF}, single...)
		classes = append(classes, "bom-bytes-in-single-byte-encoding")
	}
	if c.Shape.XMLDecl != "" {
		classes = append(classes, "xml-declaration-label")
	}
	if c.RawLead > 0 && c.RawLead < len(c18Leads) {
		single = append(append([]byte{}, c18Leads[c.RawLead]...), single...)
		classes = append(classes, "other-bom-bytes-in-single-byte-encoding")
	}
	sEnc := c.Shape
	sEnc.Encoding = c.Encoding
	got, err := runIt(sEnc.Schema(), single)
	if err != nil {
		return obs.Violationf("run with encoding %s: %v", c.Encoding, err)
	}
	has809F, hasUndef, hasHi := false, false, false
	for _, b := range single {
		if b >= 0x80 {
			hasHi = true
		}
		if b >= 0x80 && b <= 0x9F {
			has809F = true
			if c18CP1252[b-0x80] == 0 {
				hasUndef = true
			}
		}
	}
	conv := c18Decode(single, c.Encoding, false)
	ref, err := run.Transcript(schUTF, bytes.NewReader(conv), run.Opts{InputLen: len(conv)})
	if err != nil {
		return obs.Result{Excluded: "no terminal result"}
	}
	d := run.Diff(ref, got, key)
	// (the five bytes windows-1252 leaves unassigned - 81 8D 8F 90 9D - convert to U+FFFD: that is what the standard code
	// page of the Go text packages, which the library decodes with, yields. An earlier version of this check also accepted
	// the C1-control mapping of other tables; it was dropped because it let a decoder with another table pass.)
	if d != "" {
		return obs.Violationf("(bytes, encoding=%s) differs from (code-page-converted bytes, utf-8) (A converted, B declared encoding):\n%s\nsingle-byte input %q\nconverted %q", c.Encoding, d, single, conv)
	}
	if has809F {
		classes = append(classes, "bytes-80-9F")
	}
	if hasUndef {
		classes = append(classes, "cp1252-undefined-byte")
	}
	return obs.OK(hasHi && nrec(ref) >= 1, classes...)
}

func TestC18(t *testing.T) {
	obs.Run(t, "C18", genC18, checkC18)
}
