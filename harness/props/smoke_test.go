package props

import (
	"bytes"
	"fmt"
	"os"
	"testing"

	"pgregory.net/rapid"

	"verifharness/gen"
	"verifharness/run"
)

// TestSmokeShapes is a development aid: every generated shape must be accepted by NewSchema and its
// rendered input must transform without fatal error. Not a registered check.
func TestSmokeShapes(t *testing.T) {
	if os.Getenv("VERIF_SMOKE") == "" {
		t.Skip("development aid")
	}
	stats := map[string]int{}
	defer func() { fmt.Println(stats) }()
	rapid.Check(t, func(rt *rapid.T) {
		s := gen.DrawShape(rt, gen.ShapeOpts{})
		recs := gen.DrawRecs(rt, s, "r", 0, 5, gen.ValueOpts{})
		sch, err := run.NewSchema(s.Schema())
		if err != nil {
			rt.Fatalf("schema rejected: %v\n%s", err, s.Schema())
		}
		in := s.Render(recs)
		steps, err := run.Transcript(sch, bytes.NewReader(in), run.Opts{InputLen: len(in)})
		if err != nil {
			rt.Fatalf("transcript: %v", err)
		}
		last := steps[len(steps)-1]
		if last.ErrClass != "eof" {
			rt.Fatalf("format %s variant %d: terminal %+v\nschema %s\ninput %q", s.Format, s.Variant, last, s.Schema(), in)
		}
		nrec, nfail := 0, 0
		for _, st := range steps {
			switch st.Kind {
			case "rec":
				nrec++
			case "fail":
				nfail++
			}
		}
		expFail, expSkip := 0, 0
		for _, r := range recs {
			if s.IntCol >= 0 && r.Vals[s.IntCol] == "x" {
				expFail++
			} else if s.Filter && s.IntCol != 0 && len(r.Vals[0]) >= len(s.SkipToken()) && r.Vals[0][:len(s.SkipToken())] == s.SkipToken() {
				expSkip++
			}
		}
		_ = expFail
		if nrec+nfail != len(recs)-expSkip {
			rt.Fatalf("format %s variant %d: %d recs + %d fails, want %d (skip %d)\nschema %s\ninput %q\nsteps %+v", s.Format, s.Variant, nrec, nfail, len(recs)-expSkip, expSkip, s.Schema(), in, steps)
		}
		stats[s.Format]++
	})
}
