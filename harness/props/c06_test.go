package props

// C06 — Delimited and fixed-length fields carry exactly the input text (round trip against the
// generator's logical table).
//
// The case is a gen.Table: declared columns, record layout and the logical data rows. gen.Table.Render
// writes the bytes with an own RFC-4180 writer / fixed-width renderer, gen.Table.Schema is the
// pass-through schema (one `field` per column, no_trim, keep_empty_or_null) and gen.Table.Expect is the
// naive model of the documented semantics. The check runs omniparser.NewSchema + Transform.Read over
// the bytes and demands, record by record, exactly the model's texts, then io.EOF.

import (
	"bytes"
	"encoding/json"
	"fmt"
	"io"
	"strings"
	"testing"
	"unicode/utf8"

	"github.com/jf-tech/omniparser/errs"
	"github.com/jf-tech/omniparser/transformctx"
	"pgregory.net/rapid"

	"verifharness/gen"
	"verifharness/obs"
	"verifharness/run"
)

type c06Case struct {
	Table gen.Table `json:"table"`
	// Nested, when set, selects the nested arm (parent + child records over inputs beyond the read buffer);
	// see c06_nested_test.go.
	Nested *c06Nested `json:"nested,omitempty"`
}

func genC06(t *rapid.T) c06Case {
	if rapid.IntRange(0, 6).Draw(t, "arm") == 0 {
		return c06Case{Nested: genC06Nested(t)}
	}
	return c06Case{Table: gen.DrawTable(t)}
}

const c06KnownLastLine = "c06-fixedlength-4096-unterminated-last-line-dropped"

func c06Clip(s string) string {
	if len(s) <= 60 {
		return fmt.Sprintf("%q", s)
	}
	return fmt.Sprintf("%q...%q (%d bytes, %d runes)", s[:30], s[len(s)-30:], len(s), utf8.RuneCountInString(s))
}

func c06Diff(want, got string) string {
	w, g := []rune(want), []rune(got)
	i := 0
	for i < len(w) && i < len(g) && w[i] == g[i] {
		i++
	}
	cut := func(r []rune) string {
		from, to := i-8, i+12
		if from < 0 {
			from = 0
		}
		if to > len(r) {
			to = len(r)
		}
		if from > to {
			from = to
		}
		return fmt.Sprintf("%q", string(r[from:to]))
	}
	return fmt.Sprintf("want %s, got %s; first difference at rune %d: want ..%s.. got ..%s..", c06Clip(want), c06Clip(got), i, cut(w), cut(g))
}

func c06Describe(tb gen.Table, in []byte) string {
	head := in
	if len(head) > 400 {
		head = head[:400]
	}
	return fmt.Sprintf("format=%s rows=%d header_re=%q footer_re=%q input: %d bytes, starts %q\nschema: %s", tb.Format, tb.Rows, tb.HeaderRe, tb.FooterRe, len(in), head, tb.Schema())
}

// c06Classes labels the case for the class histogram and says whether it is non-trivial by the
// rule of DESIGN §5 C06.
func c06Classes(tb gen.Table, exp gen.TableExpect, in []byte) ([]string, bool) {
	classes := []string{"format=" + tb.Format}
	switch {
	case tb.Rows == 0 && tb.FooterRe == "":
		classes = append(classes, "layout=header-only")
	case tb.Rows == 0:
		classes = append(classes, "layout=header-footer")
	default:
		classes = append(classes, fmt.Sprintf("layout=rows%d", tb.Rows))
	}
	maxLine, cur := 0, 0
	for _, b := range in {
		if b == '\n' {
			if cur > maxLine {
				maxLine = cur
			}
			cur = 0
			continue
		}
		cur++
	}
	if cur > maxLine {
		maxLine = cur
	}
	longLine := maxLine > 4096
	if longLine {
		classes = append(classes, "line>4096")
	}
	if maxLine > 8192 {
		classes = append(classes, "line>8192")
	}
	if maxLine > 65536 {
		classes = append(classes, "line>65536")
	}
	if len(in) > 4096 {
		classes = append(classes, "input>4096")
	}
	multiByte, special, embeddedLF, shortRow, longRow := utf8.RuneCountInString(tb.Delim) != len(tb.Delim), false, false, false, false
	for i := range tb.Lines {
		vals := tb.LineText(i)
		if tb.IsCSV() {
			if len(vals) < len(tb.Cols) {
				shortRow = true
			}
			if len(vals) > len(tb.Cols) {
				longRow = true
			}
		}
		for _, v := range vals {
			if utf8.RuneCountInString(v) != len(v) {
				multiByte = true
			}
			if tb.IsCSV() {
				if strings.Contains(v, "\n") {
					embeddedLF, special = true, true
				}
				if strings.Contains(v, tb.Delim) || strings.Contains(v, `"`) {
					special = true
				}
			}
		}
	}
	multiRow := false
	for _, g := range exp.RecLines {
		if len(g) >= 2 {
			multiRow = true
		}
	}
	if multiByte {
		classes = append(classes, "multi-byte")
	}
	if special {
		classes = append(classes, "special-in-field")
	}
	if embeddedLF {
		classes = append(classes, "embedded-lf")
	}
	if multiRow {
		classes = append(classes, "multi-row-record")
	}
	if multiRow || embeddedLF {
		classes = append(classes, "multi-line")
	}
	if shortRow {
		classes = append(classes, "row-shorter-than-declared")
	}
	if longRow {
		classes = append(classes, "row-longer-than-declared")
	}
	if tb.HasHeader {
		if exp.HeaderRejected {
			classes = append(classes, "header-mismatch")
		} else {
			classes = append(classes, "header-match")
		}
	}
	if len(tb.Skip) > 0 || len(tb.Gap) > 0 {
		classes = append(classes, "row-jump")
	}
	if tb.Probe {
		classes = append(classes, "read-ahead-probe")
	}
	if tb.ReplaceDQ {
		classes = append(classes, "replace-double-quotes")
	}
	if tb.CRLF {
		classes = append(classes, "crlf")
	}
	if tb.NoFinalEOL {
		classes = append(classes, "unterminated-last-line")
	}
	blank := tb.LeadBlank > 0
	for _, l := range tb.Lines {
		if l.Blank > 0 {
			blank = true
		}
	}
	if blank {
		classes = append(classes, "blank-lines")
	}
	absent := false
	for _, r := range exp.Recs {
		for _, v := range r {
			if v == nil {
				absent = true
			}
		}
	}
	if absent {
		classes = append(classes, "column-without-source")
	}
	if len(exp.Recs) == 0 {
		classes = append(classes, "no-records")
	}
	return classes, special || multiByte || longLine || multiRow || embeddedLF
}

// c06LastLineExactBuffer recognises the input shape of the known finding: the last physical line is not
// terminated and its byte length is a positive multiple of the 4096-byte bufio buffer.
func c06LastLineExactBuffer(in []byte) bool {
	i := bytes.LastIndexByte(in, '\n')
	n := len(in) - (i + 1)
	return n > 0 && n%4096 == 0
}

func checkC06(c c06Case) obs.Result {
	if c.Nested != nil {
		return checkC06Nested(c.Nested)
	}
	tb := c.Table
	exp, err := tb.Expect()
	if err != nil {
		return obs.Violationf("HARNESS: generated table is ill-formed for its own layout: %v", err)
	}
	in := tb.Render()
	classes, nonTrivial := c06Classes(tb, exp, in)
	sch, err := run.NewSchema(tb.Schema())
	if err != nil {
		return obs.Violationf("generated schema rejected: %v\n%s", err, tb.Schema())
	}
	// A Schema may be reused: the same Schema object first serves a transform whose input ends in the middle of the
	// table (so that it stops inside a record, possibly with an error). Nothing of that run may affect the next one.
	if len(in) > 2 {
		cut := in[:len(in)*2/3]
		if dtr, derr := sch.NewTransform("decoy", bytes.NewReader(cut), &transformctx.Ctx{}); derr == nil {
			for i := 0; i < 64; i++ {
				if _, e := dtr.Read(); e != nil && !errs.IsErrTransformFailed(e) {
					break
				}
			}
		}
	}
	tr, err := sch.NewTransform("input", bytes.NewReader(in), &transformctx.Ctx{})
	if err != nil {
		return obs.Violationf("NewTransform failed: %v\n%s", err, c06Describe(tb, in))
	}

	if exp.HeaderRejected {
		b, err := tr.Read()
		if err == nil {
			return obs.Violationf("the declared header does not match the header row %q, but the first Read delivered a record %s\n%s",
				tb.HeaderCells, c06Clip(string(b)), c06Describe(tb, in))
		}
		if err == io.EOF || errs.IsErrTransformFailed(err) {
			return obs.Violationf("declared header does not match the header row %q: the first Read must be a fatal error, got %T %v\n%s",
				tb.HeaderCells, err, err, c06Describe(tb, in))
		}
		for k := 0; k < 3; k++ {
			if b, err := tr.Read(); err == nil {
				return obs.Violationf("header was rejected, yet Read #%d delivered a record %s\n%s", k+2, b, c06Describe(tb, in))
			}
		}
		return obs.OK(nonTrivial, classes...)
	}

	known := func(i int, gotRecord bool) bool {
		return !tb.IsCSV() && !gotRecord && i == len(exp.Recs)-1 && c06LastLineExactBuffer(in) && obs.KnownOpen(c06KnownLastLine)
	}
	fields := 0
	for i, want := range exp.Recs {
		b, err := tr.Read()
		if err != nil {
			if known(i, false) {
				return obs.Result{Known: c06KnownLastLine, Classes: classes, NonTrivial: nonTrivial}
			}
			return obs.Violationf("record %d of %d (data rows %v): Read returned %T %q instead of the record\n%s",
				i, len(exp.Recs), exp.RecLines[i], err, err.Error(), c06Describe(tb, in))
		}
		var got map[string]interface{}
		if err := json.Unmarshal(b, &got); err != nil {
			return obs.Violationf("record %d: output is not a JSON object: %v: %s", i, err, b)
		}
		for _, col := range tb.Cols {
			w := want[col.Name]
			g, present := got[col.Name]
			fields++
			if w == nil || *w == "" {
				// nothing there / empty text: absent, null and "" are all faithful
				if !present || g == nil || g == "" {
					continue
				}
				return obs.Violationf("record %d (data rows %v) column %+v: expected nothing/empty, got %v\n%s",
					i, exp.RecLines[i], col, c06Clip(fmt.Sprint(g)), c06Describe(tb, in))
			}
			gs, isStr := g.(string)
			if !isStr {
				return obs.Violationf("record %d (data rows %v) column %+v: want %s, got %v\n%s",
					i, exp.RecLines[i], col, c06Clip(*w), g, c06Describe(tb, in))
			}
			if gs != *w {
				return obs.Violationf("record %d (data rows %v) column %+v: %s\n%s",
					i, exp.RecLines[i], col, c06Diff(*w, gs), c06Describe(tb, in))
			}
		}
	}
	b, err := tr.Read()
	if err == nil {
		return obs.Violationf("all %d records delivered, then another record appeared: %s\n%s", len(exp.Recs), c06Clip(string(b)), c06Describe(tb, in))
	}
	if err != io.EOF {
		return obs.Violationf("all %d records delivered, then %T %q instead of io.EOF\n%s", len(exp.Recs), err, err.Error(), c06Describe(tb, in))
	}
	obs.Count("c06_records_compared", len(exp.Recs))
	obs.Count("c06_fields_compared", fields)
	return obs.OK(nonTrivial, classes...)
}

func TestC06(t *testing.T) {
	obs.Run(t, "C06", genC06, checkC06)
}
