package props

// The repository's own sample schemas and inputs (extensions/omniv21/samples/*) as subjects of the metamorphic checks:
// real-world schemas use transform features the generated shapes do not combine (date functions, splitting, coalescing,
// nested templates, custom_parse-free EDI hierarchies, header/footer envelopes, xpath_dynamic ...). No model is needed
// for them: chunked vs whole delivery, caches on vs off, concurrent vs serial, fresh process vs warm process, faulty
// vs fault-free reader are all relations between two runs of the same schema.

import (
	"strings"

	"pgregory.net/rapid"
)

// sampleFormat guesses the file format of a sample from its directory name (for classes and the json line mask).
func sampleFormat(name string) string {
	dir := name
	if i := strings.Index(name, "/"); i >= 0 {
		dir = name[:i]
	}
	switch dir {
	case "fixedlength":
		return "fixed-length"
	}
	return dir
}

// drawSample draws a sample number (1-based; 0 when the repository has none).
func drawSample(t *rapid.T, label string) int {
	n := len(c03Samples())
	if n == 0 {
		return 0
	}
	return rapid.IntRange(1, n).Draw(t, label)
}

// sampleOf returns schema text, input (at most 4 KiB of it) and name of sample number k (1-based).
func sampleOf(k int) (schema string, input []byte, name string, ok bool) {
	ss := c03Samples()
	if k < 1 || k > len(ss) {
		return "", nil, "", false
	}
	s := ss[k-1]
	return string(s.schema), append([]byte{}, s.input...), s.name, true
}
