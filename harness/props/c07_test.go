package props

// C07 — EDI segments are tokenized exactly at unescaped delimiters (round trip).
//
// The generator's logical segments are the model. An own escaper / writer (gen.EDIDoc.Render)
// produces the bytes; the real code is observed at the two levels the docs expose:
//
//	edi.NewNonValidatingReader   RawSeg.Name / Raw / Elems must be exactly the written pieces
//	full `edi` format            element nodes of the delivered records (RawRecord().Raw()) must carry
//	                             the logical strings; a declared element that is absent is a fatal
//	                             error unless default / empty_if_missing is declared

import (
	"bytes"
	"encoding/json"
	"fmt"
	"io"
	"strings"
	"testing"

	"github.com/jf-tech/omniparser/errs"
	"github.com/jf-tech/omniparser/extensions/omniv21/fileformat/edi"
	"github.com/jf-tech/omniparser/idr"
	"github.com/jf-tech/omniparser/transformctx"
	"pgregory.net/rapid"

	"verifharness/gen"
	"verifharness/obs"
	"verifharness/run"
)

const c07KnownInPlace = "c07-inplace-unescape-corrupts-second-declaration"

type c07Case struct {
	Doc gen.EDIDoc `json:"doc"`
	// Layout 0: one segment declaration (min 0, unbounded, target) that every segment matches - all
	// segments share one name and Decls[0]; every segment is a record.
	// Layout 1: a target group (1/1) holding one declaration (1/1) per segment in input order, each
	// with its own Decls[i]; the whole input is one record.
	Layout int                 `json:"layout"`
	Decls  [][]gen.EDIElemDecl `json:"decls"`
}

func genC07(t *rapid.T) c07Case {
	c := c07Case{}
	conf := gen.DrawEDIConf(t)
	c.Layout = rapid.IntRange(0, 1).Draw(t, "layout")
	c.Doc = gen.DrawEDIDoc(t, conf, c.Layout == 0)
	n := 1
	if c.Layout == 1 {
		n = len(c.Doc.Segs)
	}
	// about one case in eight has two declarations reading the same element (in one of its segments)
	dupSeg := -1
	if rapid.IntRange(0, 7).Draw(t, "dupCase") == 0 {
		dupSeg = rapid.IntRange(0, n-1).Draw(t, "dupSeg")
	}
	for i := 0; i < n; i++ {
		ref := c.Doc.Segs[i]
		if c.Layout == 0 {
			// one declaration list for all segments: aim at the segment with the fewest elements
			for _, s := range c.Doc.Segs {
				if len(s.Elems) < len(ref.Elems) {
					ref = s
				}
			}
		}
		c.Decls = append(c.Decls, gen.DrawEDIElemDecls(t, fmt.Sprintf("d%d", i), ref, i == dupSeg))
	}
	return c
}

func (c c07Case) schema() string {
	fd := c.Doc.Conf.FileDecl()
	segDecl := func(name string, ds []gen.EDIElemDecl) map[string]interface{} {
		o := map[string]interface{}{"name": name}
		if len(ds) > 0 {
			o["elements"] = gen.EDIElemDeclsJSON(ds)
		}
		return o
	}
	if c.Layout == 0 {
		o := segDecl(c.Doc.Segs[0].Name, c.Decls[0])
		o["min"], o["max"], o["is_target"] = 0, -1, true
		fd["segment_declarations"] = []interface{}{o}
	} else {
		var kids []interface{}
		for i, s := range c.Doc.Segs {
			kids = append(kids, segDecl(s.Name, c.Decls[i]))
		}
		fd["segment_declarations"] = []interface{}{map[string]interface{}{
			"name": "grp", "type": "segment_group", "is_target": true, "child_segments": kids}}
	}
	doc := map[string]interface{}{
		"parser_settings":        map[string]interface{}{"version": "omni.2.1", "file_format_type": "edi"},
		"file_declaration":       fd,
		"transform_declarations": map[string]interface{}{"FINAL_OUTPUT": map[string]interface{}{"custom_func": map[string]interface{}{"name": "copy"}}},
	}
	b, _ := json.Marshal(doc)
	return string(b)
}

// c07Unescape removes the release character: it escapes exactly the next rune.
func c07Unescape(s string, rel *string) string {
	if rel == nil {
		return s
	}
	rr := []rune(*rel)[0]
	rs := []rune(s)
	var sb strings.Builder
	for i := 0; i < len(rs); i++ {
		if rs[i] == rr && i+1 < len(rs) {
			i++
		}
		sb.WriteRune(rs[i])
	}
	return sb.String()
}

// c07Item is one line of a flattened record tree: "name(" / ")" for a segment or group node and
// name="value" for an element node. Reread marks an element node that is the second or a later
// reading of an element whose written form contains the release character - the only place the
// known in-place-unescape defect can show.
type c07Item struct {
	S      string
	Name   string
	Reread bool
}

// c07SegItems predicts the node of one segment, or missing != "" when a declared element is absent
// and has no default.
func c07SegItems(rel *string, seg gen.EDIRenderedSeg, decls []gen.EDIElemDecl) (items []c07Item, missing string) {
	items = append(items, c07Item{S: seg.Name + "("})
	read := make([]bool, len(seg.Elems))
	for _, d := range decls {
		comp := 1
		if d.Comp != nil {
			comp = *d.Comp
		}
		found := false
		for i, e := range seg.Elems {
			if e.ElemIndex != d.Index || e.CompIndex != comp {
				continue
			}
			found = true
			if e.Logical != c07Unescape(e.Escaped, rel) {
				panic("harness: escaper and unescaper disagree")
			}
			items = append(items, c07Item{S: fmt.Sprintf("%s=%q", d.Name, e.Logical), Name: d.Name,
				Reread: read[i] && rel != nil && strings.Contains(e.Escaped, *rel)})
			read[i] = true
		}
		if found {
			continue
		}
		switch {
		case d.Default != nil:
			items = append(items, c07Item{S: fmt.Sprintf("%s=%q", d.Name, *d.Default), Name: d.Name})
		case d.EmptyIfMissing:
			items = append(items, c07Item{S: fmt.Sprintf("%s=%q", d.Name, ""), Name: d.Name})
		default:
			return nil, fmt.Sprintf("element '%s' (index %d, component %d) of segment '%s'", d.Name, d.Index, comp, seg.Name)
		}
	}
	return append(items, c07Item{S: ")"}), ""
}

// c07Expect predicts the full-stack transcript: flattened record trees and the terminal kind.
func c07Expect(c c07Case, segs []gen.EDIRenderedSeg) (recs [][]c07Item, term string) {
	rel := c.Doc.Conf.Rel
	if c.Layout == 0 {
		for _, s := range segs {
			items, missing := c07SegItems(rel, s, c.Decls[0])
			if missing != "" {
				return recs, "fatal"
			}
			recs = append(recs, items)
		}
		return recs, "eof"
	}
	grp := []c07Item{{S: "grp("}}
	for i, s := range segs {
		items, missing := c07SegItems(rel, s, c.Decls[i])
		if missing != "" {
			return nil, "fatal"
		}
		grp = append(grp, items...)
	}
	return [][]c07Item{append(grp, c07Item{S: ")"})}, "eof"
}

// c07Flatten walks a delivered record the same way.
func c07Flatten(n *idr.Node, out *[]c07Item) {
	var text *string
	var kids []*idr.Node
	for c := n.FirstChild; c != nil; c = c.NextSibling {
		if c.Type == idr.TextNode {
			s := c.Data
			if text != nil {
				s = *text + s
			}
			text = &s
		} else {
			kids = append(kids, c)
		}
	}
	if text != nil && len(kids) == 0 {
		*out = append(*out, c07Item{S: fmt.Sprintf("%s=%q", n.Data, *text), Name: n.Data})
		return
	}
	*out = append(*out, c07Item{S: n.Data + "("})
	for _, k := range kids {
		c07Flatten(k, out)
	}
	*out = append(*out, c07Item{S: ")"})
}

func c07ItemsString(items []c07Item) string {
	var parts []string
	for _, it := range items {
		parts = append(parts, it.S)
	}
	return strings.Join(parts, " ")
}

func c07Short(s string) string {
	if len(s) > 600 {
		return s[:300] + fmt.Sprintf("...(%d bytes)...", len(s)-600) + s[len(s)-300:]
	}
	return s
}

func checkC07(c c07Case) obs.Result {
	conf := c.Doc.Conf
	if len(c.Doc.Segs) == 0 || len(c.Decls) == 0 || (c.Layout == 1 && len(c.Decls) != len(c.Doc.Segs)) {
		return obs.Result{Excluded: "malformed case"}
	}
	input, segs := c.Doc.Render()
	describe := func() string {
		return fmt.Sprintf("delimiters=%s\ninput=%s", c07JSON(conf.FileDecl()), c07Short(fmt.Sprintf("%q", input)))
	}

	// ---- level 1: the exported non-validating reader
	// (the declaration goes through its JSON form, as a schema's does: no dependence on the Go types of the fields)
	var decl edi.FileDecl
	if err := json.Unmarshal([]byte(c07JSON(conf.FileDecl())), &decl); err != nil {
		return obs.Violationf("harness: file declaration does not unmarshal: %v", err)
	}
	r := edi.NewNonValidatingReader(bytes.NewReader(input), &decl)
	for i := 0; ; i++ {
		seg, err := r.Read()
		if err == io.EOF {
			if i != len(segs) {
				return obs.Violationf("NonValidatingReader: EOF after %d segments, %d were written\n%s", i, len(segs), describe())
			}
			break
		}
		if err != nil {
			return obs.Violationf("NonValidatingReader: segment %d: unexpected error %v\n%s", i, err, describe())
		}
		if i >= len(segs) {
			return obs.Violationf("NonValidatingReader: returns a segment %d (%q) beyond the %d written\n%s", i, seg.Raw, len(segs), describe())
		}
		w := segs[i]
		if seg.Name != w.Name {
			return obs.Violationf("NonValidatingReader: segment %d: Name %q, want %q\n%s", i, seg.Name, w.Name, describe())
		}
		if string(seg.Raw) != w.Raw {
			return obs.Violationf("NonValidatingReader: segment %d: Raw %s, want %s\n%s", i, c07Short(fmt.Sprintf("%q", seg.Raw)), c07Short(fmt.Sprintf("%q", w.Raw)), describe())
		}
		if len(seg.Elems) != len(w.Elems) {
			return obs.Violationf("NonValidatingReader: segment %d (%s): %d element/component pieces, want %d\n%s", i, c07Short(fmt.Sprintf("%q", w.Raw)), len(seg.Elems), len(w.Elems), describe())
		}
		for j, e := range seg.Elems {
			we := w.Elems[j]
			if e.ElemIndex != we.ElemIndex || e.CompIndex != we.CompIndex || string(e.Data) != we.Escaped {
				return obs.Violationf("NonValidatingReader: segment %d piece %d: got (elem %d, comp %d, %s), want (elem %d, comp %d, %s)\n%s",
					i, j, e.ElemIndex, e.CompIndex, c07Short(fmt.Sprintf("%q", e.Data)), we.ElemIndex, we.CompIndex, c07Short(fmt.Sprintf("%q", we.Escaped)), describe())
			}
		}
	}

	// ---- level 2: the full edi format
	sch, err := run.NewSchema(c.schema())
	if err != nil {
		return obs.Violationf("generated schema rejected: %v\n%s", err, c.schema())
	}
	tr, err := sch.NewTransform("c07", bytes.NewReader(input), &transformctx.Ctx{})
	if err != nil {
		return obs.Violationf("NewTransform: %v", err)
	}
	var got [][]c07Item
	gotTerm, gotErr := "no-terminal", ""
	for i := 0; i <= len(segs)+1; i++ {
		_, err := tr.Read()
		if err == nil {
			rr, rerr := tr.RawRecord()
			if rerr != nil {
				return obs.Violationf("RawRecord after a successful Read: %v", rerr)
			}
			var items []c07Item
			c07Flatten(rr.Raw().(*idr.Node), &items)
			got = append(got, items)
			continue
		}
		switch {
		case err == io.EOF:
			gotTerm = "eof"
		case errs.IsErrTransformFailed(err):
			gotTerm, gotErr = "record-failure", err.Error()
		default:
			gotTerm, gotErr = "fatal", err.Error()
		}
		break
	}
	wantRecs, wantTerm := c07Expect(c, segs)
	// diff compares; with tolerateReread the value of a Reread element node is not compared (its
	// presence and name still are).
	diff := func(tolerateReread bool) string {
		for i := 0; i < len(wantRecs) && i < len(got); i++ {
			w, g := wantRecs[i], got[i]
			same := len(w) == len(g)
			for j := 0; same && j < len(w); j++ {
				if w[j].S != g[j].S && !(tolerateReread && w[j].Reread && w[j].Name == g[j].Name) {
					same = false
				}
			}
			if !same {
				return fmt.Sprintf("record %d: element nodes differ\n  want %s\n  got  %s", i, c07Short(c07ItemsString(w)), c07Short(c07ItemsString(g)))
			}
		}
		if len(wantRecs) != len(got) {
			return fmt.Sprintf("number of records: want %d, got %d (then %s %s)", len(wantRecs), len(got), gotTerm, gotErr)
		}
		if wantTerm != gotTerm {
			return fmt.Sprintf("terminal result: want %s, got %s %s", wantTerm, gotTerm, gotErr)
		}
		return ""
	}
	known := ""
	if d := diff(false); d != "" {
		// the known shape: the only nodes that differ are second or later readings of an element
		// whose written form contains the release character
		if obs.KnownOpen(c07KnownInPlace) && diff(true) == "" {
			known = c07KnownInPlace
		} else {
			return obs.Violationf("full edi format: %s\nelement declarations=%s\n%s", d, c07JSON(c.Decls), describe())
		}
	}

	// ---- classes
	cl := []string{fmt.Sprintf("layout=%d", c.Layout), "outcome=" + wantTerm}
	escaped, long128, long4096, emptyElem, trailingEmpty, gratuitous, crlfData, strayCR, blankTok := false, false, false, false, false, false, false, false, false
	for i, s := range segs {
		if len(s.Raw) > 128 {
			long128 = true
		}
		if len(s.Raw) > 4096 {
			long4096 = true
		}
		for _, e := range s.Elems[1:] {
			if e.Escaped != e.Logical {
				escaped = true
			}
			if e.Logical == "" {
				emptyElem = true
			}
			if strings.ContainsAny(e.Logical, "\r\n") {
				crlfData = true
			}
		}
		if n := len(s.Elems); n > 1 && s.Elems[n-1].Logical == "" {
			trailingEmpty = true
		}
		if c.Doc.Segs[i].GratEvery > 0 {
			gratuitous = true
		}
		if c.Doc.Segs[i].StrayCR {
			strayCR = true
		}
		if c.Doc.Segs[i].BlankBefore > 0 {
			blankTok = true
		}
	}
	flag := func(b bool, name string) {
		if b {
			cl = append(cl, name)
		}
	}
	flag(strayCR, "stray-cr")
	flag(blankTok, "crlf-only-token")
	flag(escaped, "escaped")
	flag(long128, "segment>128")
	flag(long4096, "segment>4096")
	flag(conf.MultiRune(), "multi-rune-delimiter")
	flag(conf.MultiByte(), "multi-byte-special")
	flag(conf.Rel == nil, "no-release-char")
	flag(conf.Comp != nil, "component-delimiter")
	flag(conf.Rep != nil, "repetition-delimiter")
	flag(conf.IgnoreCRLF, "ignore-crlf")
	flag(len(c.Doc.Noise) > 0, "crlf-noise")
	flag(strings.ContainsAny(conf.Seg, "\r\n"), "newline-delimiter")
	flag(c.Doc.Trailing != "", "trailing-crlf")
	flag(c.Doc.NoFinalDelim, "no-final-delimiter")
	flag(emptyElem, "empty-element")
	flag(trailingEmpty, "trailing-empty-element")
	flag(gratuitous, "gratuitous-escape")
	flag(crlfData, "crlf-is-data")
	dup, outOfRange, dflt := false, false, false
	for i, ds := range c.Decls {
		seen := map[[2]int]bool{}
		for _, d := range ds {
			comp := 1
			if d.Comp != nil {
				comp = *d.Comp
			}
			k := [2]int{d.Index, comp}
			if seen[k] {
				dup = true
			}
			seen[k] = true
			if d.Index > len(c.Doc.Segs[i].Elems) {
				outOfRange = true
			}
			if d.Default != nil || d.EmptyIfMissing {
				dflt = true
			}
		}
	}
	flag(dup, "two-declarations-same-element")
	flag(outOfRange, "index-out-of-range")
	flag(dflt, "default-declared")
	if known != "" {
		return obs.Result{Known: known, Classes: cl}
	}
	return obs.OK(escaped || long128 || conf.MultiRune(), cl...)
}

func c07JSON(v interface{}) string {
	b, _ := json.Marshal(v)
	return string(b)
}

func TestC07(t *testing.T) {
	obs.Run(t, "C07", genC07, checkC07)
}
