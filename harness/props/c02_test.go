package props

// C02 — Emitted JSON equals the documented evaluation of FINAL_OUTPUT (reference evaluator, see
// c02_model_test.go and DESIGN.md Appendix A).

import (
	"bytes"
	"encoding/json"
	"fmt"
	"os"
	"sort"
	"strings"
	"testing"
	"unicode/utf8"

	"github.com/jf-tech/omniparser"
	"github.com/jf-tech/omniparser/customfuncs"
	"github.com/jf-tech/omniparser/errs"
	"github.com/jf-tech/omniparser/extensions/omniv21"
	v21funcs "github.com/jf-tech/omniparser/extensions/omniv21/customfuncs"
	"github.com/jf-tech/omniparser/idr"
	"github.com/jf-tech/omniparser/transformctx"
	"pgregory.net/rapid"

	"verifharness/gen"
	"verifharness/obs"
	"verifharness/run"
)

// ---- record documents ------------------------------------------------------------------------

// c02El is an XML / JSON element of a record.
type c02El struct {
	Name  string      `json:"n"`
	Attrs [][2]string `json:"a,omitempty"` // xml only
	Text  string      `json:"t,omitempty"` // leading text
	Kids  []c02El     `json:"k,omitempty"`
	Tail  string      `json:"tail,omitempty"` // text after the children (xml mixed content)
	// TextMode (xml, non-empty Text): 0 escaped text; 1 one CDATA section; 2 text + CDATA; 3 text, comment, text; 4 two CDATA
	// sections; 5 text, processing instruction, text - the element's character data is the same, the tree holds several
	// adjacent text nodes for 2..5.
	TextMode int `json:"tm,omitempty"`
}

type c02Case struct {
	Format string    `json:"format"` // xml | json | csv2 | edi
	Recs   []c02El   `json:"recs,omitempty"`
	Shape  gen.Shape `json:"shape"`
	Flat   []gen.Rec `json:"flat,omitempty"`
	// transform_declarations as JSON text (FINAL_OUTPUT + templates)
	Decls json.RawMessage `json:"decls"`
}

var c02Names = []string{"a", "b", "c", "d"}
var c02Texts = []string{"", "x", "y", " x ", "12", " 7", "3.5", "true", "x y", "NaN", "2020-01-02", "é", "0", "-4", "yes", "\t",
	// white space beyond ASCII (trimming is Unicode-aware)
	"\u00a0x\u00a0", "\u3000", "\u0085 7", "\u2003y", "x\u00a0y",
	// numeric edge forms: a cast reads decimal integers / Go floats / Go booleans, nothing else
	"010", "08", "0x10", "1_000", "+5", "1e3", ".5", "1.", "0b11", "0o7", "T", "1", "FALSE", "Inf", "-0", "9223372036854775807", "9223372036854775808"}

func c02DrawEl(t *rapid.T, label string, depth int, xml bool) c02El {
	e := c02El{Name: rapid.SampledFrom(c02Names).Draw(t, label+"n")}
	if xml {
		na := rapid.SampledFrom([]int{0, 0, 1, 1, 2}).Draw(t, label+"na")
		for i, k := range []string{"k", "m"}[:na] {
			e.Attrs = append(e.Attrs, [2]string{k, rapid.SampledFrom([]string{"1", "2", "x", ""}).Draw(t, fmt.Sprintf("%sav%d", label, i))})
		}
	}
	nk := 0
	if depth < 3 {
		nk = rapid.SampledFrom([]int{0, 0, 0, 1, 2, 2, 3}).Draw(t, label+"nk")
	}
	if nk == 0 || (xml && rapid.IntRange(0, 4).Draw(t, label+"mixed") == 0) {
		e.Text = rapid.SampledFrom(c02Texts).Draw(t, label+"t")
		if xml && e.Text != "" && rapid.IntRange(0, 3).Draw(t, label+"split") == 0 {
			e.TextMode = rapid.IntRange(1, 5).Draw(t, label+"tm")
		}
	}
	for i := 0; i < nk; i++ {
		e.Kids = append(e.Kids, c02DrawEl(t, fmt.Sprintf("%sk%d", label, i), depth+1, xml))
	}
	if xml && nk > 0 && rapid.IntRange(0, 5).Draw(t, label+"tail") == 0 {
		e.Tail = rapid.SampledFrom([]string{"z", " ", "w "}).Draw(t, label+"tailv")
	}
	return e
}

func c02XMLEsc(s string) string {
	return strings.NewReplacer("&", "&amp;", "<", "&lt;", ">", "&gt;", "\"", "&quot;", "\t", "&#9;").Replace(s)
}

func c02CharData(v string, mode int) string {
	if mode == 0 || v == "" {
		return c02XMLEsc(v)
	}
	cdata := func(x string) string {
		if strings.Contains(x, "]]>") {
			return c02XMLEsc(x)
		}
		return "<![CDATA[" + x + "]]>"
	}
	cut := len(v) / 2
	for cut > 0 && !utf8.RuneStart(v[cut]) {
		cut--
	}
	a, b := v[:cut], v[cut:]
	switch mode {
	case 1:
		return cdata(v)
	case 2:
		return c02XMLEsc(a) + cdata(b)
	case 3:
		return c02XMLEsc(a) + "<!-- c -->" + c02XMLEsc(b)
	case 4:
		return cdata(a) + cdata(b)
	default:
		return c02XMLEsc(a) + "<?p i?>" + c02XMLEsc(b)
	}
}

func (e c02El) xml(b *strings.Builder, name string) {
	b.WriteString("<" + name)
	for _, a := range e.Attrs {
		fmt.Fprintf(b, " %s=\"%s\"", a[0], c02XMLEsc(a[1]))
	}
	b.WriteString(">")
	b.WriteString(c02CharData(e.Text, e.TextMode))
	for _, k := range e.Kids {
		k.xml(b, k.Name)
	}
	b.WriteString(c02XMLEsc(e.Tail))
	b.WriteString("</" + name + ">")
}

// jsonVal renders the element as a JSON value: leaves are strings, elements with children are objects;
// repeated child names become arrays.
func (e c02El) jsonVal() interface{} {
	if len(e.Kids) == 0 {
		return e.Text
	}
	m := map[string]interface{}{}
	order := []string{}
	groups := map[string][]interface{}{}
	for _, k := range e.Kids {
		if _, ok := groups[k.Name]; !ok {
			order = append(order, k.Name)
		}
		groups[k.Name] = append(groups[k.Name], k.jsonVal())
	}
	for _, n := range order {
		if len(groups[n]) == 1 {
			m[n] = groups[n][0]
		} else {
			m[n] = groups[n]
		}
	}
	return m
}

func (c c02Case) input() []byte {
	switch c.Format {
	case "xml":
		var b strings.Builder
		b.WriteString(`<root v="9"><hdr>H</hdr>`)
		for _, r := range c.Recs {
			r.xml(&b, "rec")
		}
		b.WriteString("<ftr>F</ftr></root>")
		return []byte(b.String())
	case "json":
		recs := []interface{}{}
		for _, r := range c.Recs {
			v := r.jsonVal()
			if _, ok := v.(map[string]interface{}); !ok {
				v = map[string]interface{}{"a": v}
			}
			recs = append(recs, v)
		}
		out, _ := json.Marshal(map[string]interface{}{"hdr": "H", "recs": recs})
		return out
	default:
		return c.Shape.Render(c.Flat)
	}
}

func (c c02Case) finalXPath() string {
	switch c.Format {
	case "xml":
		return "/root/rec"
	case "json":
		return "/recs/*"
	default:
		return c.Shape.FinalOutputXPath()
	}
}

func (c c02Case) schema() string {
	var decls map[string]interface{}
	_ = json.Unmarshal(c.Decls, &decls)
	return c.schemaWith(decls)
}

// twinSchema is the same file declaration with a pass-through FINAL_OUTPUT (same record filter): it
// delivers the same record nodes in the same order and never fails a record, which lets the model see
// the records whose transform failed in the schema under test.
func (c c02Case) twinSchema() string {
	fo := map[string]interface{}{"keep_empty_or_null": true}
	if xp := c.finalXPath(); xp != "" {
		fo["xpath"] = xp
	}
	return c.schemaWith(map[string]interface{}{"FINAL_OUTPUT": fo})
}

func (c c02Case) schemaWith(decls map[string]interface{}) string {
	switch c.Format {
	case "xml", "json":
		doc := map[string]interface{}{"parser_settings": map[string]interface{}{"version": "omni.2.1", "file_format_type": c.Format},
			"transform_declarations": decls}
		b, _ := json.Marshal(doc)
		return string(b)
	default:
		return c.Shape.SchemaWith(decls)
	}
}

// ---- declaration generator ----------------------------------------------------------------------

type c02DeclGen struct {
	t        *rapid.T
	xpaths   []string // record-relative xpaths meaningful for the format
	n        int      // declarations generated so far
	pool     []interface{}
	tplNames []string
	id       int
}

func (g *c02DeclGen) label(s string) string {
	g.id++
	return fmt.Sprintf("%s%d", s, g.id)
}

func (g *c02DeclGen) xpath() string {
	return rapid.SampledFrom(g.xpaths).Draw(g.t, g.label("xp"))
}

func (g *c02DeclGen) flags(d map[string]interface{}, withType, withTrim bool) {
	if rapid.IntRange(0, 3).Draw(g.t, g.label("keep")) == 0 {
		d["keep_empty_or_null"] = true
	}
	if withTrim && rapid.IntRange(0, 3).Draw(g.t, g.label("notrim")) == 0 {
		d["no_trim"] = true
	}
	if withType && rapid.IntRange(0, 3).Draw(g.t, g.label("typed")) == 0 {
		d["type"] = rapid.SampledFrom([]string{"int", "float", "boolean", "string"}).Draw(g.t, g.label("type"))
	}
}

func (g *c02DeclGen) anchor(d map[string]interface{}, prob int) {
	switch k := rapid.IntRange(0, prob).Draw(g.t, g.label("anch")); {
	case k == 0:
		// xpath_dynamic: a const / concat that yields one of the xpaths; rarely blank or failing
		switch rapid.IntRange(0, 29).Draw(g.t, g.label("dynk")) {
		case 0:
			d["xpath_dynamic"] = map[string]interface{}{"const": " "}
		case 1:
			d["xpath_dynamic"] = map[string]interface{}{"xpath": "nosuch", "type": "int"} // no match -> nil value
		case 2:
			d["xpath_dynamic"] = map[string]interface{}{"const": "x", "type": "int"} // fails
		case 3, 4, 5:
			d["xpath_dynamic"] = map[string]interface{}{"external": "xp"} // the xpath comes from an external property
		default:
			xp := g.xpath()
			if len(xp) > 1 && rapid.Bool().Draw(g.t, g.label("dynsplit")) {
				d["xpath_dynamic"] = map[string]interface{}{"custom_func": map[string]interface{}{"name": "concat", "args": []interface{}{
					map[string]interface{}{"const": xp[:1]}, map[string]interface{}{"const": xp[1:]}}}}
			} else {
				d["xpath_dynamic"] = map[string]interface{}{"const": xp}
			}
		}
	case k <= prob*2/3:
		d["xpath"] = g.xpath()
	}
}

// leaf draws const / external / field, possibly a verbatim copy of an earlier leaf (identical text at
// different positions).
func (g *c02DeclGen) leaf() map[string]interface{} {
	g.n++
	if len(g.pool) > 0 && rapid.IntRange(0, 2).Draw(g.t, g.label("reuse")) == 0 {
		return c02Clone(g.pool[rapid.IntRange(0, len(g.pool)-1).Draw(g.t, g.label("reuseIdx"))]).(map[string]interface{})
	}
	d := map[string]interface{}{}
	switch rapid.IntRange(0, 9).Draw(g.t, g.label("leafk")) {
	case 0:
		d["const"] = rapid.SampledFrom(c02Texts).Draw(g.t, g.label("const"))
		g.flags(d, true, true)
	case 1:
		d["external"] = rapid.SampledFrom([]string{"e1", "e2", "missing"}).Draw(g.t, g.label("ext"))
		g.flags(d, true, true)
	default:
		g.anchor(d, 9)
		g.flags(d, true, true)
	}
	g.pool = append(g.pool, c02Clone(d))
	return d
}

// Caller-registered functions (the documented way: an Extension whose table is Merge(common, omni.2.1, own)) with
// parameters of every cast type and a variadic interface{} tail: "absent values are passed as the parameter's zero value"
// is only observable on parameters that are not strings.
func c02Mix(_ *transformctx.Ctx, s string, n int64, b bool, f float64) (string, error) {
	return fmt.Sprintf("%s|%d|%t|%g", s, n, b, f), nil
}

func c02Var(_ *transformctx.Ctx, prefix string, vals ...interface{}) (string, error) {
	var sb strings.Builder
	sb.WriteString(prefix)
	for _, v := range vals {
		fmt.Fprintf(&sb, "[%T:%v]", v, v)
	}
	return sb.String(), nil
}

var c02Ext = omniparser.Extension{
	CreateSchemaHandler: omniv21.CreateSchemaHandler,
	CustomFuncs: customfuncs.Merge(customfuncs.CommonCustomFuncs, v21funcs.OmniV21CustomFuncs,
		customfuncs.CustomFuncs{"c02mix": c02Mix, "c02var": c02Var}),
}

func (g *c02DeclGen) customFunc(depth int) map[string]interface{} {
	g.n++
	d := map[string]interface{}{}
	strArg := func() interface{} {
		// string-valued argument; rarely a numeric const cast to int: a string parameter rejects it at run time
		// (argument check fails, the record fails, or the call yields nothing under ignore_error)
		if rapid.IntRange(0, 14).Draw(g.t, g.label("typedArg")) == 0 {
			return map[string]interface{}{"const": "12", "type": "int"}
		}
		a := g.leaf()
		delete(a, "type")
		return a
	}
	// an argument of a multi-argument function: mostly a leaf, sometimes another custom function (evaluated while the
	// outer call's argument list is being built)
	anyArg := func() interface{} {
		if depth < 3 && rapid.IntRange(0, 3).Draw(g.t, g.label("nestedArg")) == 0 {
			inner := g.customFunc(depth + 1)
			if inner["custom_func"].(map[string]interface{})["name"] != "copy" {
				delete(inner, "type")
				return inner
			}
		}
		return strArg()
	}
	// an argument for a parameter of the given cast type: absent (an xpath that matches nothing), a well-typed constant,
	// or a leaf cast to the type (the cast may fail the record)
	typedArg := func(typ, good string) interface{} {
		switch rapid.IntRange(0, 4).Draw(g.t, g.label("typedParam")) {
		case 0, 1:
			return map[string]interface{}{"xpath": "nosuch", "type": typ}
		case 2, 3:
			return map[string]interface{}{"const": good, "type": typ}
		default:
			a := g.leaf()
			a["type"] = typ
			return a
		}
	}
	var cf map[string]interface{}
	numericJS := false
	switch rapid.IntRange(0, 10).Draw(g.t, g.label("cfk")) {
	case 10:
		// a script with a numeric result, cast with `type` (float -> int truncates toward zero)
		script := rapid.SampledFrom([]string{"-3.5", "-0.25", "2.75", "a.length / -2", "a.length * 1.5", "7", "-7", "a.length - 2.5", "0.5 - a.length"}).Draw(g.t, g.label("numjs"))
		cf = map[string]interface{}{"name": "javascript", "args": []interface{}{map[string]interface{}{"const": script},
			map[string]interface{}{"const": "a"}, strArg()}}
		numericJS = true
	case 9:
		if rapid.Bool().Draw(g.t, g.label("ownVariadic")) {
			args := []interface{}{typedArg("string", "p")}
			for i, n := 0, rapid.IntRange(0, 3).Draw(g.t, g.label("nvar")); i < n; i++ {
				tg := rapid.SampledFrom([][2]string{{"string", "s"}, {"int", "7"}, {"boolean", "true"}, {"float", "1.5"}}).Draw(g.t, g.label("vart"))
				args = append(args, typedArg(tg[0], tg[1]))
			}
			cf = map[string]interface{}{"name": "c02var", "args": args}
		} else {
			cf = map[string]interface{}{"name": "c02mix", "args": []interface{}{typedArg("string", "s"), typedArg("int", "7"), typedArg("boolean", "true"), typedArg("float", "1.5")}}
		}
	case 0, 1:
		n := rapid.IntRange(0, 3).Draw(g.t, g.label("nargs"))
		args := []interface{}{}
		for i := 0; i < n; i++ {
			args = append(args, anyArg())
		}
		cf = map[string]interface{}{"name": rapid.SampledFrom([]string{"concat", "coalesce"}).Draw(g.t, g.label("fn")), "args": args}
	case 2, 3:
		var arg interface{} = strArg()
		if depth < 4 && rapid.IntRange(0, 2).Draw(g.t, g.label("nestcf")) == 0 {
			inner := g.customFunc(depth + 1)
			delete(inner, "type")
			if fn := inner["custom_func"].(map[string]interface{})["name"]; fn == "copy" {
				arg = strArg()
			} else {
				// (a javascript argument may evaluate to a number, array or object: the string parameter then rejects
				// it at run time and the record fails - a failed argument check followed by nested calls)
				arg = inner
			}
		}
		args := []interface{}{arg}
		if rapid.IntRange(0, 9).Draw(g.t, g.label("surplusArg")) == 0 {
			// one argument too many for a one-parameter function (the schema is accepted; every record fails, whether or
			// not the surplus argument has a value)
			args = append(args, rapid.SampledFrom([]interface{}{map[string]interface{}{"xpath": "nosuch"}, map[string]interface{}{"const": "x"}}).Draw(g.t, g.label("surplus")))
		}
		cf = map[string]interface{}{"name": rapid.SampledFrom([]string{"upper", "lower", "uuidv3"}).Draw(g.t, g.label("fn")), "args": args}
	case 4:
		cf = map[string]interface{}{"name": "dateTimeToEpoch", "args": []interface{}{strArg(), map[string]interface{}{"const": ""}, map[string]interface{}{"const": "SECOND"}}}
	case 5:
		cf = map[string]interface{}{"name": "copy"}
	default:
		script := rapid.SampledFrom([]string{"a + '|' + b", "a.length + b.length", "a == b", "parseInt(a)", "a.trim()", "[a, b]", "({x: a, n: b.length})", "null", "a.nosuch.deeper"}).Draw(g.t, g.label("js"))
		cf = map[string]interface{}{"name": "javascript", "args": []interface{}{map[string]interface{}{"const": script},
			map[string]interface{}{"const": "a"}, anyArg(), map[string]interface{}{"const": "b"}, anyArg()}}
	}
	if rapid.IntRange(0, 3).Draw(g.t, g.label("ignerr")) == 0 {
		cf["ignore_error"] = true
	}
	d["custom_func"] = cf
	g.anchor(d, 5)
	name := cf["name"]
	g.flags(d, name != "copy" && name != "javascript", true)
	if numericJS && rapid.IntRange(0, 3).Draw(g.t, g.label("numcast")) > 0 {
		d["type"] = rapid.SampledFrom([]string{"int", "int", "float", "string", "boolean"}).Draw(g.t, g.label("numtype"))
	}
	return d
}

func (g *c02DeclGen) decl(depth int, allowArray bool) map[string]interface{} {
	if g.n > 40 || depth >= 5 {
		return g.leaf()
	}
	kinds := []int{0, 0, 0, 0, 1, 1, 2, 3, 3, 4, 4}
	k := rapid.SampledFrom(kinds).Draw(g.t, g.label("kind"))
	if k == 2 && !allowArray {
		k = 0
	}
	switch k {
	case 1: // object
		g.n++
		d := map[string]interface{}{}
		n := rapid.IntRange(0, 4).Draw(g.t, g.label("nobj"))
		children := map[string]interface{}{}
		for i := 0; i < n; i++ {
			key := rapid.SampledFrom([]string{"p", "q", "r", "s", "t.u", "v%w", "x y", "w%", "%", "a.", ".b", "%.", "c%%", "日"}).Draw(g.t, g.label("key"))
			children[key] = g.decl(depth+1, true)
		}
		d["object"] = children
		g.anchor(d, 5)
		if rapid.IntRange(0, 3).Draw(g.t, g.label("keep")) == 0 {
			d["keep_empty_or_null"] = true
		}
		return d
	case 2: // array
		g.n++
		d := map[string]interface{}{}
		n := rapid.SampledFrom([]int{0, 1, 1, 2, 2, 3, 3, 4, 10, 11, 13}).Draw(g.t, g.label("narr"))
		var children []interface{}
		for i := 0; i < n; i++ {
			if n >= 10 {
				children = append(children, g.leaf())
			} else {
				children = append(children, g.decl(depth+1, false))
			}
		}
		if children == nil {
			children = []interface{}{}
		}
		d["array"] = children
		if rapid.IntRange(0, 3).Draw(g.t, g.label("keep")) == 0 {
			d["keep_empty_or_null"] = true
		}
		return d
	case 3:
		return g.customFunc(depth)
	case 4: // template reference
		if len(g.tplNames) == 0 {
			return g.leaf()
		}
		g.n++
		d := map[string]interface{}{"template": rapid.SampledFrom(g.tplNames).Draw(g.t, g.label("tpl"))}
		return d
	default:
		return g.leaf()
	}
}

func c02XPaths(format string, s gen.Shape) []string {
	switch format {
	case "xml":
		return []string{"a", "b", "c", "a/b", "*/c", "*", ".", "..", "../hdr", "//c", "@k", "a/@k", "a[1]", "a[2]", "a[last()]", "a[b='x']", "a[@k='1']",
			"b[.='x']", ".//d", "a/b/c", "nosuch", "a | b", "*[1]", "text()", "a[contains(.,'x')]", "d",
			"*[last()]", "a[position()=last()]", "a[last()]/b", "*[position()<last()]", "b[last()]", "*[last()]/@k"}
	case "json":
		return []string{"a", "b", "c", "a/b", "*/c", "*", ".", "..", "../../hdr", "//c", "a/*", "a[1]", "a/*[1]", "a[b='x']", "b[.='x']", ".//d", "a/b/c", "nosuch", "d", "a/*/b"}
	default:
		xs := []string{".", "..", "*", "nosuch", "c0", "c0", "*[1]", "*[last()]"}
		for i := 0; i < s.NCols; i++ {
			xs = append(xs, fmt.Sprintf("c%d", i))
		}
		if s.HasSubs() {
			xs = append(xs, "SUB", "SUB/s0", "SUB[1]", "SUB[1]/s0", "SUB[last()]/s0", "SUB/*")
		}
		return xs
	}
}

func genC02(t *rapid.T) c02Case {
	c := c02Case{}
	c.Format = rapid.SampledFrom([]string{"xml", "xml", "xml", "json", "json", "csv2", "edi"}).Draw(t, "format")
	switch c.Format {
	case "xml", "json":
		n := rapid.IntRange(1, 4).Draw(t, "nrecs")
		for i := 0; i < n; i++ {
			e := c02DrawEl(t, fmt.Sprintf("r%d", i), 0, c.Format == "xml")
			if len(e.Kids) == 0 {
				e.Kids = []c02El{c02DrawEl(t, fmt.Sprintf("r%dx", i), 1, c.Format == "xml")}
			}
			c.Recs = append(c.Recs, e)
		}
	default:
		c.Shape = gen.DrawShape(t, gen.ShapeOpts{Formats: []string{c.Format}, PlainOnly: true, NoIntCol: true})
		if c.Format == "csv2" {
			c.Shape.Variant = 2
			c.Shape.NSub = 1
		} else {
			c.Shape.NSub = 1
		}
		c.Flat = gen.DrawRecs(t, c.Shape, "f", 1, 4, gen.ValueOpts{ASCIIOnly: true})
	}
	g := &c02DeclGen{t: t, xpaths: c02XPaths(c.Format, c.Shape)}
	decls := map[string]interface{}{}
	// templates first (a template may reference earlier templates only: no cycles)
	nt := rapid.SampledFrom([]int{0, 1, 1, 2, 2, 3}).Draw(t, "ntemplates")
	for i := 0; i < nt; i++ {
		name := fmt.Sprintf("t%d", i)
		body := g.decl(2, true)
		// a template body without its own anchor can be referenced with an xpath
		decls[name] = body
		g.tplNames = append(g.tplNames, name)
	}
	var fo map[string]interface{}
	if rapid.IntRange(0, 9).Draw(t, "foKind") == 0 {
		fo = g.decl(1, true)
	} else {
		g.n++
		children := map[string]interface{}{}
		n := rapid.IntRange(1, 6).Draw(t, "nfo")
		for i := 0; i < n; i++ {
			children[fmt.Sprintf("f%d", i)] = g.decl(1, true)
		}
		if rapid.IntRange(0, 4).Draw(t, "implicitNodeTwins") == 0 {
			// a function that takes the current node implicitly (copy) and has no anchor of its own, evaluated at several
			// cursor positions of one record: textually identical declarations whose values differ only by the node they
			// are evaluated on (every element of an array, an anchored object, the record itself)
			mk := func() map[string]interface{} {
				return map[string]interface{}{"custom_func": map[string]interface{}{"name": "copy"}}
			}
			children["zc"] = map[string]interface{}{"array": []interface{}{
				map[string]interface{}{"object": map[string]interface{}{"v": mk()}, "xpath": g.xpath()}}}
			if rapid.Bool().Draw(t, "twinAtRecord") {
				children["zd"] = mk()
			}
			if rapid.Bool().Draw(t, "twinAtAnchor") {
				children["ze"] = map[string]interface{}{"object": map[string]interface{}{"v": mk()}, "xpath": g.xpath()}
			}
		}
		fo = map[string]interface{}{"object": children}
	}
	// template references with an xpath: only when the body has no anchor of its own
	c02FixTemplateRefs(fo, decls, g)
	for _, name := range g.tplNames {
		if body, ok := decls[name].(map[string]interface{}); ok {
			c02FixTemplateRefs(body, decls, g)
		}
	}
	delete(fo, "xpath")
	delete(fo, "xpath_dynamic")
	// FINAL_OUTPUT carries the record filter: kinds that take no xpath (const / external / array, or a
	// template whose body is one of those or has its own anchor) are wrapped into an object
	wrap := fo["const"] != nil || fo["external"] != nil || fo["array"] != nil
	if name, isTpl := fo["template"].(string); isTpl {
		for depth := 0; depth < 10; depth++ {
			body, ok := decls[name].(map[string]interface{})
			if !ok || body["xpath"] != nil || body["xpath_dynamic"] != nil || body["const"] != nil || body["external"] != nil || body["array"] != nil {
				wrap = true
				break
			}
			inner, ok := body["template"].(string)
			if !ok {
				break
			}
			name = inner
		}
	}
	if wrap {
		fo = map[string]interface{}{"object": map[string]interface{}{"only": fo}}
	}
	if xp := c.finalXPath(); xp != "" {
		fo["xpath"] = xp
	}
	decls["FINAL_OUTPUT"] = fo
	c.Decls, _ = json.Marshal(decls)
	return c
}

// c02FixTemplateRefs walks a declaration tree and gives some template references an xpath, provided the
// referenced body (after following further references) has none of its own.
func c02FixTemplateRefs(d map[string]interface{}, decls map[string]interface{}, g *c02DeclGen) {
	var bodyAnchored func(name string, depth int) bool
	bodyAnchored = func(name string, depth int) bool {
		b, ok := decls[name].(map[string]interface{})
		if !ok || depth > 10 {
			return true
		}
		if b["xpath"] != nil || b["xpath_dynamic"] != nil {
			return true
		}
		// const / external / array take no xpath: a reference carrying one would inline into a
		// declaration the schema grammar does not admit
		if b["const"] != nil || b["external"] != nil || b["array"] != nil {
			return true
		}
		if inner, ok := b["template"].(string); ok {
			return bodyAnchored(inner, depth+1)
		}
		return false
	}
	var walk func(v interface{})
	walk = func(v interface{}) {
		switch t := v.(type) {
		case map[string]interface{}:
			if name, ok := t["template"].(string); ok {
				if !bodyAnchored(name, 0) && rapid.Bool().Draw(g.t, g.label("tplxp")) {
					t["xpath"] = g.xpath()
				}
				return
			}
			keys := make([]string, 0, len(t))
			for k := range t {
				keys = append(keys, k)
			}
			sort.Strings(keys)
			for _, k := range keys {
				walk(t[k])
			}
		case []interface{}:
			for _, x := range t {
				walk(x)
			}
		}
	}
	walk(d)
}

// ---- classification of a declaration tree -----------------------------------------------------

type c02Stats struct {
	identical   bool // the same declaration text occurs at >= 2 positions
	tplMultiUse bool
	bigArray    bool
	deepAnchors bool
}

func c02Classify(decls map[string]interface{}) c02Stats {
	st := c02Stats{}
	seen := map[string]int{}
	tplUse := map[string]int{}
	var walk func(v interface{}, anchors int)
	walk = func(v interface{}, anchors int) {
		switch t := v.(type) {
		case map[string]interface{}:
			isDecl := false
			for _, k := range []string{"const", "external", "xpath", "xpath_dynamic", "object", "array", "custom_func", "template"} {
				if _, ok := t[k]; ok {
					isDecl = true
				}
			}
			if isDecl {
				b, _ := json.Marshal(t)
				if t["xpath"] != nil || t["xpath_dynamic"] != nil {
					seen[string(b)]++
					anchors++
					if anchors >= 3 {
						st.deepAnchors = true
					}
				}
				if name, ok := t["template"].(string); ok {
					tplUse[name]++
				}
				if arr, ok := t["array"].([]interface{}); ok && len(arr) >= 10 {
					st.bigArray = true
				}
			}
			keys := make([]string, 0, len(t))
			for k := range t {
				keys = append(keys, k)
			}
			sort.Strings(keys)
			for _, k := range keys {
				walk(t[k], anchors)
			}
		case []interface{}:
			for _, x := range t {
				walk(x, anchors)
			}
		}
	}
	walk(decls, 0)
	for _, n := range seen {
		if n >= 2 {
			st.identical = true
		}
	}
	for _, n := range tplUse {
		if n >= 2 {
			st.tplMultiUse = true
		}
	}
	return st
}

// ---- check --------------------------------------------------------------------------------------

// c02Show renders a model value for messages (kept-empty containers as <null|{}|[]>).
func c02Show(v interface{}) string {
	var conv func(v interface{}) interface{}
	conv = func(v interface{}) interface{} {
		switch t := v.(type) {
		case c02KeptEmpty:
			return "<null|{}|[]>"
		case c02Map:
			o := map[string]interface{}{}
			for k, x := range t {
				o[k] = conv(x)
			}
			return o
		case []interface{}:
			o := make([]interface{}, len(t))
			for i, x := range t {
				o[i] = conv(x)
			}
			return o
		}
		return v
	}
	return c02Canon(conv(v))
}

func c02Canon(v interface{}) string {
	var buf bytes.Buffer
	e := json.NewEncoder(&buf)
	e.SetEscapeHTML(false)
	if err := e.Encode(v); err != nil {
		return "MARSHAL-ERROR:" + err.Error()
	}
	s, err := run.Canon(buf.Bytes())
	if err != nil {
		return "CANON-ERROR:" + err.Error()
	}
	return s
}

func checkC02(c c02Case) obs.Result {
	var decls map[string]interface{}
	if err := json.Unmarshal(c.Decls, &decls); err != nil {
		return obs.Violationf("harness: bad decls: %v", err)
	}
	schema := c.schema()
	sch, err := omniparser.NewSchema("schema", strings.NewReader(schema), c02Ext)
	if err != nil {
		if os.Getenv("VERIF_C02_DEBUG") != "" {
			fmt.Printf("REJECTED: %v\n%s\n", err, c.Decls)
		}
		return obs.Result{Excluded: "schema rejected: " + firstLine(err.Error())}
	}
	in := c.input()
	xps := c02XPaths(c.Format, c.Shape)
	ext := map[string]string{"e1": " ext one ", "e2": "42", "xp": xps[len(c.Decls)%len(xps)]}
	// the same Schema object first serves another transform with other external properties: nothing of it
	// may stick to the schema
	decoy := map[string]string{"e1": "other", "e2": "x", "xp": xps[(len(c.Decls)+1)%len(xps)]}
	if dtr, derr := sch.NewTransform("decoy", bytes.NewReader(in), &transformctx.Ctx{ExternalProperties: decoy}); derr == nil {
		for i := 0; i < 200; i++ {
			if _, e := dtr.Read(); e != nil && !errs.IsErrTransformFailed(e) {
				break
			}
		}
	}
	tr, err := sch.NewTransform("input", bytes.NewReader(in), &transformctx.Ctx{ExternalProperties: ext})
	if err != nil {
		return obs.Violationf("NewTransform failed on a well-formed input: %v", err)
	}
	st := c02Classify(decls)
	classes := []string{"format=" + c.Format}
	if st.identical {
		classes = append(classes, "identical-text")
	}
	if st.tplMultiUse {
		classes = append(classes, "template-multi-use")
	}
	if st.bigArray {
		classes = append(classes, "array>=10")
	}
	if st.deepAnchors {
		classes = append(classes, "deep-anchors")
	}
	if bytes.Contains(c.Decls, []byte(`"zc":{"array":[{"object":{"v":{"custom_func":{"name":"copy"}}}`)) {
		classes = append(classes, "implicit-node-func-at-several-nodes")
	}
	fo := decls["FINAL_OUTPUT"].(map[string]interface{})
	twinSch, err := omniparser.NewSchema("twin", strings.NewReader(c.twinSchema()))
	if err != nil {
		return obs.Violationf("harness: twin schema rejected: %v", err)
	}
	twin, err := twinSch.NewTransform("input", bytes.NewReader(in), &transformctx.Ctx{})
	if err != nil {
		return obs.Violationf("harness: twin NewTransform: %v", err)
	}
	tolerances := map[string]bool{}
	nrec := 0
	for i := 0; i < 200; i++ {
		out, rerr := tr.Read()
		_, terr := twin.Read()
		if rerr != nil && !errs.IsErrTransformFailed(rerr) {
			if rerr.Error() != "EOF" {
				return obs.Violationf("unexpected terminal error on a well-formed input: %v\ninput %q", rerr, in)
			}
			if terr == nil {
				return obs.Violationf("the schema under test reports EOF while the pass-through twin still delivers records\ninput %q", in)
			}
			break
		}
		if terr != nil {
			return obs.Violationf("the pass-through twin ended (%v) while the schema under test still delivers results\ninput %q", terr, in)
		}
		// the record node comes from the twin: RawRecord of the transform under test is unavailable for failed Reads
		trr, e := twin.RawRecord()
		if e != nil {
			return obs.Violationf("harness: twin RawRecord: %v", e)
		}
		node, _ := trr.Raw().(*idr.Node)
		if node == nil {
			return obs.Violationf("harness: twin raw record is not a node")
		}
		if rerr == nil {
			// and it must be the same record the transform under test just read
			rr, e := tr.RawRecord()
			if e != nil {
				return obs.Violationf("RawRecord after successful Read: %v", e)
			}
			if own, _ := rr.Raw().(*idr.Node); own == nil || idr.JSONify2(own) != idr.JSONify2(node) {
				return obs.Violationf("harness: twin and transform under test are not in lockstep")
			}
		}
		nrec++
		// all combinations of the documented-open choices
		var wants []string
		matched := false
		var gotCanon string
		var gotVal interface{}
		if rerr == nil {
			d := json.NewDecoder(bytes.NewReader(out))
			d.UseNumber()
			if d.Decode(&gotVal) != nil {
				return obs.Violationf("output is not JSON: %q", out)
			}
			gotCanon = c02Canon(gotVal)
		}
		for mask := 0; mask < 4; mask++ {
			m := &c02Model{templates: decls, external: ext, usedT: map[string]bool{},
				ch: c02Choices{DynamicFailureIsNoMatch: mask&1 != 0, ArgFailureIgnored: mask&2 != 0}}
			val, merr := m.eval(fo, node, false, true)
			if merr == nil && c02NonFinite(val) {
				merr = c02Failf("NaN / Inf cannot be emitted as JSON")
			}
			var want string
			if merr != nil {
				if _, isFail := merr.(*c02Fail); !isFail {
					return obs.Violationf("harness: model error: %v", merr)
				}
				want = "FAIL"
			} else {
				want = c02Show(val)
			}
			for k := range m.usedT {
				tolerances[k] = true
			}
			wants = append(wants, want)
			if (rerr != nil && merr != nil) || (rerr == nil && merr == nil && c02Same(val, gotVal)) {
				matched = true
			}
			if !m.usedT["dynamic-failure"] && !m.usedT["arg-failure-under-ignore-error"] {
				break // no open choice was reached: the other combinations are identical
			}
		}
		if !matched {
			got := gotCanon
			if rerr != nil {
				got = "per-record failure: " + rerr.Error()
			}
			return obs.Violationf("record %d: emitted value differs from the documented evaluation\n got:  %s\n want: %s\nrecord: %s\ntransform_declarations: %s",
				nrec, got, strings.Join(uniq(wants), "\n   or: "), idr.JSONify2(node), c.Decls)
		}
	}
	for k := range tolerances {
		classes = append(classes, "tolerance:"+k)
	}
	nt := st.identical || st.tplMultiUse || st.bigArray || st.deepAnchors
	return obs.OK(nt, classes...)
}

func firstLine(s string) string {
	if i := strings.IndexByte(s, '\n'); i >= 0 {
		s = s[:i]
	}
	if len(s) > 80 {
		s = s[:80]
	}
	return s
}

func uniq(xs []string) []string {
	seen := map[string]bool{}
	var out []string
	for _, x := range xs {
		if !seen[x] {
			seen[x] = true
			out = append(out, x)
		}
	}
	return out
}

func TestC02(t *testing.T) {
	obs.Run(t, "C02", genC02, checkC02)
}
