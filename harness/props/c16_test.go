package props

// C16 — Input reader failures end the transform with a fatal error (fault enumeration).

import (
	"bufio"
	"bytes"
	"context"
	"fmt"
	"io"
	"os"
	"syscall"
	"time"
	"testing"

	"pgregory.net/rapid"

	"verifharness/gen"
	"verifharness/model"
	"verifharness/obs"
	"verifharness/run"
)

type c16Case struct {
	Shape     gen.Shape    `json:"shape"`
	Recs      []gen.Rec    `json:"recs"`
	Schedule  run.Schedule `json:"schedule"`
	Transient bool         `json:"transient"` // fault, then Resume more bytes, then fault forever
	Resume    int          `json:"resume"`
	// ErrWithData: the reader returns the failure together with the last bytes before it, (n > 0, err)
	ErrWithData bool `json:"err_with_data,omitempty"`
	// ErrKind selects the error value of the failing Reads (see c16Errs); Wrap how the failing reader is handed to
	// NewTransform: 0 as is, 1 inside a *bufio.Reader, 2 inside a *bufio.Reader with the minimum buffer (16 bytes),
	// 3 inside io.MultiReader, 4 inside an io.LimitReader that never limits
	ErrKind int `json:"err_kind,omitempty"`
	Wrap    int `json:"wrap,omitempty"`
	// Sample > 0: the subject is repository sample number Sample; the fault positions are then the sampled Positions (the
	// inputs are a few KB: all positions would be thousands of runs per case)
	Sample    int   `json:"sample,omitempty"`
	Positions []int `json:"positions,omitempty"`
	// Hier != nil: the subject is a generated declaration hierarchy (edi / csv2 / fixedlength2: groups, rows-based and
	// header/footer records, min/max) with a unit sequence, as in C05, instead of Shape/Recs
	Hier  *gen.Hierarchy `json:"hier,omitempty"`
	Units []model.HUnit  `json:"units,omitempty"`
	HR    *gen.HRender   `json:"hrender,omitempty"`
	// OnlyAt restricts the enumeration to one position (used by shrunk replays); -1 = all positions
	OnlyAt int `json:"only_at"`
}

func genC16(t *rapid.T) c16Case {
	c := c16Case{OnlyAt: -1}
	if rapid.IntRange(0, 9).Draw(t, "sampleArm") == 0 {
		c.Sample = drawSample(t, "sample")
	}
	if c.Sample == 0 && rapid.IntRange(0, 3).Draw(t, "hierArm") == 0 {
		format := rapid.SampledFrom([]string{"edi", "csv2", "fixedlength2", "fixedlength2"}).Draw(t, "hierFormat")
		h := gen.DrawHierarchy(t, format, gen.HierOpts{Tags: []string{"A", "B", "C", "D"}})
		c.Hier = &h
		c.Units = gen.DrawUnits(t, h, []string{"A", "B", "C", "D"})
		r := gen.DrawHRender(t, format, len(c.Units))
		c.HR = &r
		c.Shape = gen.Shape{Format: format}
	} else if c.Sample > 0 {
		_, in, name, _ := sampleOf(c.Sample)
		c.Shape = gen.Shape{Format: sampleFormat(name)}
		for i := 0; i < 24; i++ {
			// two draws: rapid's integer draws favour the ends of a range
			p := (rapid.IntRange(0, len(in)).Draw(t, fmt.Sprintf("posA%d", i)) + rapid.IntRange(0, len(in)).Draw(t, fmt.Sprintf("posB%d", i))) % (len(in) + 1)
			c.Positions = append(c.Positions, p)
		}
	} else {
		c.Shape = gen.DrawShape(t, gen.ShapeOpts{AllowReplaceQuotes: true})
		c.Shape.BOM = rapid.IntRange(0, 5).Draw(t, "bom") == 0
		c.Recs = gen.DrawRecs(t, c.Shape, "r", 0, 5, gen.ValueOpts{})
	}
	switch rapid.IntRange(0, 2).Draw(t, "sched") {
	case 0:
		c.Schedule = run.Schedule{Sizes: []int{1 << 20}}
	case 1:
		c.Schedule = run.Schedule{Sizes: []int{1}}
	default:
		c.Schedule = run.Schedule{Sizes: rapid.SliceOfN(rapid.IntRange(1, 9), 1, 4).Draw(t, "sizes")}
	}
	c.Transient = rapid.Bool().Draw(t, "transient")
	c.Resume = rapid.IntRange(1, 12).Draw(t, "resume")
	c.ErrWithData = rapid.IntRange(0, 2).Draw(t, "errWithData") == 0
	if rapid.IntRange(0, 2).Draw(t, "stdErr") == 0 {
		c.ErrKind = rapid.IntRange(1, len(c16Errs)-1).Draw(t, "errKind")
	}
	if rapid.IntRange(0, 2).Draw(t, "wrapped") == 0 {
		c.Wrap = rapid.IntRange(1, 4).Draw(t, "wrap")
	}
	return c
}

const c16ReadDeadline = 60 * time.Second

// c16TimeoutErr looks like a net.Error of a connection that timed out.
type c16TimeoutErr struct{}

func (c16TimeoutErr) Error() string   { return "read tcp 10.0.0.1:443: i/o timeout" }
func (c16TimeoutErr) Timeout() bool   { return true }
func (c16TimeoutErr) Temporary() bool { return true }

// c16Errs: failures real readers produce (truncated gzip/http bodies, closed pipes, deadlines, cancelled contexts).
// None of them is io.EOF, so each is a failure of the input reader in the sense of the property.
var c16Errs = []error{
	run.ErrInjected,
	io.ErrUnexpectedEOF,
	io.ErrClosedPipe,
	io.ErrNoProgress,
	os.ErrDeadlineExceeded,
	context.Canceled,
	c16TimeoutErr{},
	fmt.Errorf("gzip: invalid checksum: %w", io.ErrUnexpectedEOF),
	&os.PathError{Op: "read", Path: "/dev/stdin", Err: syscall.EIO},
}

func (c c16Case) wrap(r io.Reader) io.Reader {
	switch c.Wrap {
	case 1:
		return bufio.NewReader(r)
	case 2:
		return bufio.NewReaderSize(r, 16)
	case 3:
		return io.MultiReader(r)
	case 4:
		return io.LimitReader(r, 1<<40)
	}
	return r
}

func (c c16Case) input() []byte {
	if c.Hier != nil && c.HR != nil {
		return c.Hier.RenderUnits(c.Units, *c.HR)
	}
	if c.Sample > 0 {
		_, in, _, _ := sampleOf(c.Sample)
		return in
	}
	in := c.Shape.Render(c.Recs)
	if c.Shape.BOM {
		in = append([]byte{0xEF, 0xBB, 0xBF}, in...)
	}
	return in
}

func checkC16(c c16Case) obs.Result {
	schemaText := ""
	if c.Sample > 0 {
		st, _, _, ok := sampleOf(c.Sample)
		if !ok {
			return obs.Result{Excluded: "no such sample"}
		}
		schemaText = st
	} else if c.Hier != nil && c.HR != nil {
		schemaText = c.Hier.Schema(*c.HR)
	} else {
		schemaText = c.Shape.Schema()
	}
	sch, err := run.NewSchema(schemaText)
	if err != nil {
		return obs.Violationf("generated schema rejected: %v", err)
	}
	in := c.input()
	ref, err := run.Transcript(sch, bytes.NewReader(in), run.Opts{InputLen: len(in)})
	if err != nil {
		return obs.Result{Excluded: "fault-free run has no terminal result"}
	}
	n := len(ref)
	nrec := 0
	for _, st := range ref {
		if st.Kind != "term" {
			nrec++
		}
	}
	classes := []string{"format=" + c.Shape.Format}
	only := map[int]bool{}
	if c.Hier != nil {
		classes = append(classes, "hierarchy")
	}
	if c.Sample > 0 {
		classes = append(classes, "repo-sample")
		for _, p := range c.Positions {
			only[p] = true
		}
	}
	if c.Transient {
		classes = append(classes, "transient")
	}
	if c.ErrWithData {
		classes = append(classes, "error-with-data")
	}
	if c.ErrKind < 0 || c.ErrKind >= len(c16Errs) {
		return obs.Result{Excluded: "unknown error kind"}
	}
	if c.ErrKind > 0 {
		classes = append(classes, "std-error-value")
	}
	if c.Wrap > 0 {
		classes = append(classes, "wrapped-reader")
		if c.Wrap <= 2 {
			classes = append(classes, "bufio-reader")
		}
	}
	positions := 0
	maskedEOF := 0
	for p := 0; p <= len(in); p++ {
		if c.OnlyAt >= 0 && p != c.OnlyAt {
			continue
		}
		if c.Sample > 0 && !only[p] {
			continue
		}
		positions++
		resume := -1
		if c.Transient {
			resume = c.Resume
		}
		fr := run.NewFaultReader(in, c.Schedule, p, resume)
		fr.WithData = c.ErrWithData
		fr.Err = c16Errs[c.ErrKind]
		// The faulty run in a goroutine of its own: a Read that WAITS (retries with a back-off, blocks on something) burns
		// no CPU, so the general watchdog cannot tell it from a starved machine. Here nothing can legitimately wait - the
		// reader is in memory, a whole run takes about a millisecond - so 60 s without a result is "does not return".
		type faulty struct {
			steps []run.Step
			err   error
		}
		done := make(chan faulty, 1)
		go func() {
			st, e := run.Transcript(sch, c.wrap(fr), run.Opts{MaxReads: n + 3, ExtraRead: 2})
			done <- faulty{st, e}
		}()
		var got []run.Step
		var terr error
		select {
		case f := <-done:
			got, terr = f.steps, f.err
		case <-time.After(c16ReadDeadline):
			return obs.Violationf("after the input reader failed a Read did not return within %v (the fault-free run of this input takes %d Reads in milliseconds): fault at byte %d of %d (error %T %q, reader wrap %d, transient=%v), input %q",
				c16ReadDeadline, n, p, len(in), c16Errs[c.ErrKind], c16Errs[c.ErrKind].Error(), c.Wrap, c.Transient, in)
		}
		describe := func() string {
			return fmt.Sprintf("fault at byte %d of %d (error %T %q, reader wrap %d, transient=%v resume=%d with-data=%v), schedule %+v, input %q", p, len(in), c16Errs[c.ErrKind], c16Errs[c.ErrKind].Error(), c.Wrap, c.Transient, c.Resume, c.ErrWithData, c.Schedule, in)
		}
		if terr != nil {
			tail := got
			if len(tail) > 4 {
				tail = tail[len(tail)-4:]
			}
			if obs.KnownOpen("c16-csv-io-error-continuable") && c.Shape.Format == "csv" && allFails(got[nrecPrefix(got):]) {
				obs.Count("known_csv_endless", 1)
				return obs.Result{Known: "c16-csv-io-error-continuable", Classes: classes}
			}
			return obs.Violationf("no terminal result within %d Reads (fault-free run needs %d): %s\nlast results: %+v", n+3, n, describe(), tail)
		}
		// locate the terminal step
		ti := -1
		for i, st := range got {
			if st.Kind == "term" {
				ti = i
				break
			}
		}
		if fr.Faults == 0 {
			// the transform never reached the fault (it stopped reading earlier): must equal the fault-free run
			if d := run.Diff(ref, got[:ti+1], run.Step.Key); d != "" {
				return obs.Violationf("the fault was never reached, yet results differ from the fault-free run: %s\n%s", describe(), d)
			}
			continue
		}
		// sticky
		for _, st := range got[ti+1:] {
			if st.KeyWithErr() != got[ti].KeyWithErr() {
				return obs.Violationf("terminal result not repeated by later Reads: %s\n%+v then %+v", describe(), got[ti], st)
			}
		}
		if got[ti].ErrClass == "eof" {
			// the reader failed, yet the transform reports a clean end of input: the failure was swallowed and
			// whatever followed is silently missing
			maskedEOF++
			return obs.Violationf("the input reader failed but the transform ended with a clean io.EOF instead of a fatal error: %s\nfaulty transcript: %+v\nfault-free transcript: %+v", describe(), got, ref)
		}
		// every result before the terminal one, except possibly the last, equals the fault-free run
		upto := ti - 1 // index of the last result that may differ
		for i := 0; i < upto; i++ {
			if i >= len(ref) || got[i].Key() != ref[i].Key() {
				var r interface{} = "(none)"
				if i < len(ref) {
					r = ref[i]
				}
				return obs.Violationf("result %d before the fault differs from the fault-free run: %s\nfaulty: %+v\nfault-free: %+v\nfaulty transcript: %+v", i, describe(), got[i], r, got)
			}
		}
	}
	obs.Count("fault_positions", positions)
	obs.Count("fault_masked_as_eof", maskedEOF)
	obs.Count("fault_masked_as_eof_"+c.Shape.Format, maskedEOF)
	return obs.OK(nrec >= 2 && len(in) > 2, classes...)
}

func nrecPrefix(steps []run.Step) int {
	for i, st := range steps {
		if st.Kind == "fail" {
			return i
		}
	}
	return len(steps)
}

func allFails(steps []run.Step) bool {
	if len(steps) == 0 {
		return false
	}
	for _, st := range steps {
		if st.Kind != "fail" {
			return false
		}
	}
	return true
}

func TestC16(t *testing.T) {
	obs.Run(t, "C16", genC16, checkC16)
}
