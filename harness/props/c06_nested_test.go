package props

// C06, nested arm: parent records with child records (fixedlength2 child_envelopes / csv2 child_records) on
// inputs larger than the readers' 4096-byte buffer. The parent's column values are extracted before its
// children are read, so they must survive any number of buffer refills.

import (
	"bytes"
	"encoding/json"
	"fmt"
	"strings"
	"unicode/utf8"

	"github.com/jf-tech/omniparser/transformctx"
	"pgregory.net/rapid"

	"verifharness/gen"
	"verifharness/obs"
	"verifharness/run"
)

type c06Nested struct {
	Shape gen.Shape `json:"shape"`
	Recs  []gen.Rec `json:"recs"`
}

func genC06Nested(t *rapid.T) *c06Nested {
	n := &c06Nested{}
	format := rapid.SampledFrom([]string{"fixedlength2", "fixedlength2", "csv2"}).Draw(t, "nformat")
	n.Shape = gen.DrawShape(t, gen.ShapeOpts{Formats: []string{format}, PlainOnly: true, NoIntCol: true, NoFilter: true})
	n.Shape.Variant = 2
	n.Shape.NSub = rapid.IntRange(1, 2).Draw(t, "nnsub")
	if format == "fixedlength2" {
		n.Shape.Widths = make([]int, n.Shape.NCols)
		for i := range n.Shape.Widths {
			n.Shape.Widths[i] = rapid.SampledFrom([]int{1, 3, 8, 20, 60, 150}).Draw(t, fmt.Sprintf("nw%d", i))
		}
		n.Shape.SubW = make([]int, n.Shape.NSub)
		for i := range n.Shape.SubW {
			n.Shape.SubW[i] = rapid.SampledFrom([]int{1, 5, 30, 90}).Draw(t, fmt.Sprintf("nsw%d", i))
		}
	}
	nrec := rapid.SampledFrom([]int{1, 3, 8, 20, 40}).Draw(t, "nnrec")
	for i := 0; i < nrec; i++ {
		r := gen.Rec{Vals: make([]string, n.Shape.NCols)}
		for j := range r.Vals {
			w := 0
			if len(n.Shape.Widths) > j {
				w = n.Shape.Widths[j]
			}
			r.Vals[j] = gen.DrawValue(t, n.Shape, fmt.Sprintf("n%dv%d", i, j), w, gen.ValueOpts{MaxLen: 160})
		}
		ns := rapid.IntRange(0, 6).Draw(t, fmt.Sprintf("n%dsubs", i))
		for k := 0; k < ns; k++ {
			sub := make([]string, n.Shape.NSub)
			for l := range sub {
				w := 0
				if len(n.Shape.SubW) > l {
					w = n.Shape.SubW[l]
				}
				sub[l] = gen.DrawValue(t, n.Shape, fmt.Sprintf("n%ds%d_%d", i, k, l), w, gen.ValueOpts{MaxLen: 100})
			}
			r.Subs = append(r.Subs, sub)
		}
		n.Recs = append(n.Recs, r)
	}
	return n
}

func c06Pad(v string, w int) string {
	if w <= 0 {
		return v
	}
	n := utf8.RuneCountInString(v)
	if n > w {
		return string([]rune(v)[:w])
	}
	return v + strings.Repeat(" ", w-n)
}

func checkC06Nested(n *c06Nested) obs.Result {
	s := n.Shape
	raw := func(name string) map[string]interface{} {
		return map[string]interface{}{"xpath": name, "no_trim": true, "keep_empty_or_null": true}
	}
	fields := map[string]interface{}{}
	for i := 0; i < s.NCols; i++ {
		fields[fmt.Sprintf("c%d", i)] = raw(fmt.Sprintf("c%d", i))
	}
	sf := map[string]interface{}{}
	for k := 0; k < s.NSub; k++ {
		sf[fmt.Sprintf("s%d", k)] = raw(fmt.Sprintf("s%d", k))
	}
	fields["subs"] = map[string]interface{}{"array": []interface{}{map[string]interface{}{"xpath": s.SubXPath(), "object": sf}}}
	schema := s.SchemaWith(map[string]interface{}{"FINAL_OUTPUT": map[string]interface{}{"object": fields}})
	sch, err := run.NewSchema(schema)
	if err != nil {
		return obs.Violationf("nested arm: generated schema rejected: %v", err)
	}
	in := s.Render(n.Recs)
	tr, err := sch.NewTransform("input", bytes.NewReader(in), &transformctx.Ctx{})
	if err != nil {
		return obs.Violationf("nested arm: NewTransform: %v", err)
	}
	width := func(ws []int, i int) int {
		if len(ws) > i {
			return ws[i]
		}
		return 0
	}
	for i, r := range n.Recs {
		out, err := tr.Read()
		if err != nil {
			return obs.Violationf("nested arm (%s): record %d of %d: Read failed: %v", s.Format, i+1, len(n.Recs), err)
		}
		var got map[string]interface{}
		if json.Unmarshal(out, &got) != nil {
			return obs.Violationf("nested arm: output is not a JSON object: %s", out)
		}
		for j, v := range r.Vals {
			want := c06Pad(v, width(s.Widths, j))
			g, _ := got[fmt.Sprintf("c%d", j)].(string)
			if g != want {
				return obs.Violationf("nested arm (%s, input %d bytes): record %d column c%d: got %s, want %s\n%s", s.Format, len(in), i+1, j, c06Clip(g), c06Clip(want), c06Diff(want, g))
			}
		}
		gs, _ := got["subs"].([]interface{})
		if len(gs) != len(r.Subs) {
			return obs.Violationf("nested arm (%s): record %d has %d child records, want %d", s.Format, i+1, len(gs), len(r.Subs))
		}
		for k, sub := range r.Subs {
			gm, _ := gs[k].(map[string]interface{})
			for l, v := range sub {
				want := c06Pad(v, width(s.SubW, l))
				g, _ := gm[fmt.Sprintf("s%d", l)].(string)
				if g != want {
					return obs.Violationf("nested arm (%s): record %d child %d column s%d: got %s, want %s", s.Format, i+1, k+1, l, c06Clip(g), c06Clip(want))
				}
			}
		}
	}
	if _, err := tr.Read(); err == nil || err.Error() != "EOF" {
		return obs.Violationf("nested arm (%s): expected EOF after %d records, got %v", s.Format, len(n.Recs), err)
	}
	classes := []string{"arm=nested", "format=" + s.Format}
	if len(in) > 4096 {
		classes = append(classes, "nested-input>4096")
	}
	return obs.OK(len(in) > 4096 && len(n.Recs) >= 2, classes...)
}
