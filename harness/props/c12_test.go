package props

// C12 — Node trees stay structurally sound and pooled nodes are never aliased.
//
// Three kinds of case, all through one entry point (the case says which):
//   ops     a replayable operation list over CreateNode / CreateXMLNode / CreateJSONNode / AddChild /
//           RemoveAndReleaseTree, mirrored step by step in an abstract ordered-tree model;
//   reader  one of the seven format readers driven by hand over a gen.Shape input; every tree it hands
//           out is audited at delivery, after Release and after the next Read;
//   conc    G goroutines acquiring / linking / releasing nodes at the same time (meaningful with and
//           without -race; only schedule-independent facts are asserted).
//
// The idr package has process-wide state (node pool, ID counter). Nothing below assumes that this
// test is the only user of the pool: only nodes the case currently holds are required not to be
// handed out again, and released nodes are never dereferenced (their pointers are only compared).

import (
	"bytes"
	"fmt"
	"io"
	"runtime"
	"sort"
	"strings"
	"sync"
	"testing"

	"github.com/jf-tech/omniparser"
	"github.com/jf-tech/omniparser/customfuncs"
	"github.com/jf-tech/omniparser/errs"
	"github.com/jf-tech/omniparser/extensions/omniv21"
	v21funcs "github.com/jf-tech/omniparser/extensions/omniv21/customfuncs"
	"github.com/jf-tech/omniparser/extensions/omniv21/fileformat"
	fcsv "github.com/jf-tech/omniparser/extensions/omniv21/fileformat/csv"
	fedi "github.com/jf-tech/omniparser/extensions/omniv21/fileformat/edi"
	ffixed "github.com/jf-tech/omniparser/extensions/omniv21/fileformat/fixedlength"
	fcsv2 "github.com/jf-tech/omniparser/extensions/omniv21/fileformat/flatfile/csv"
	ffixed2 "github.com/jf-tech/omniparser/extensions/omniv21/fileformat/flatfile/fixedlength"
	fjson "github.com/jf-tech/omniparser/extensions/omniv21/fileformat/json"
	fxml "github.com/jf-tech/omniparser/extensions/omniv21/fileformat/xml"
	"github.com/jf-tech/omniparser/extensions/omniv21/transform"
	"github.com/jf-tech/omniparser/idr"
	"github.com/jf-tech/omniparser/transformctx"
	"pgregory.net/rapid"

	"verifharness/gen"
	"verifharness/model"
	"verifharness/obs"
)

// ---------------------------------------------------------------------------------------------
// case

const (
	c12MaxRoots = 6
	c12MaxNodes = 60
)

// c12Op is one step of the state machine. Nodes are addressed by their index in the model's list
// of live nodes (acquisition order), never by ID: IDs differ from run to run.
type c12Op struct {
	Op     string `json:"op"`             // root | child | remove | probe
	Ctor   int    `json:"ctor,omitempty"` // 0 CreateNode, 1 CreateXMLNode, 2 CreateJSONNode
	Type   int    `json:"type,omitempty"` // idr.NodeType 0..3
	Data   string `json:"data,omitempty"`
	Target int    `json:"target,omitempty"` // live-node index (mod number of live nodes): parent of a new child / node to remove
	// Pos refines a removal: 0 the target itself, 1 its first child, 2 its last child, 3 a middle
	// child, 4 the root of its tree (falls back to the target itself when there is no such node)
	Pos int `json:"pos,omitempty"`
	K   int `json:"k,omitempty"` // probe size
}

type c12Case struct {
	Kind string  `json:"kind"` // ops | reader | conc
	Ops  []c12Op `json:"ops,omitempty"`

	// reader
	Shape    *gen.Shape `json:"shape,omitempty"`
	Recs     []gen.Rec  `json:"recs,omitempty"`
	Truncate int        `json:"truncate,omitempty"` // > 0: the input is cut to this many bytes
	// NoRelease[i%len] says that record i is NOT handed back through Release (the next Read must cope)
	NoRelease []bool `json:"no_release,omitempty"`
	// Hier != nil: the reader's subject is a generated declaration hierarchy (edi / csv2 / fixedlength2: groups, nested
	// records, the target anywhere - also on a group) instead of Shape/Recs; Shape then only names the format
	Hier  *gen.Hierarchy `json:"hier,omitempty"`
	Units []model.HUnit  `json:"units,omitempty"`
	HR    *gen.HRender   `json:"hrender,omitempty"`

	// conc: Batches[g] is goroutine g's script: sizes of the trees it builds, holds and releases;
	// Churn is the number of bare acquire/release cycles each goroutine adds at the end.
	Batches [][]int `json:"batches,omitempty"`
	Churn   int     `json:"churn,omitempty"`

	// jsonvalues: the JSON stream reader driven by hand over SEVERAL top-level values (an input the reader may reject
	// after the first value - whatever it does, every tree it hands out must be sound) with a root-selecting or
	// child-selecting xpath
	Values []string `json:"values,omitempty"`
	Sep    string   `json:"sep,omitempty"`
	XPath  string   `json:"xpath,omitempty"`
}

func c12DrawOps(t *rapid.T) []c12Op {
	n := rapid.IntRange(8, 80).Draw(t, "nops")
	ops := make([]c12Op, 0, n)
	live := 0 // rough count, only steers the mix (the interpreter decides what is applicable)
	for i := 0; i < n; i++ {
		var op c12Op
		k := rapid.IntRange(0, 99).Draw(t, "opKind")
		switch {
		case live == 0 || k < 8:
			op.Op = "root"
		case k < 58:
			op.Op = "child"
		case k < 92:
			op.Op = "remove"
		default:
			op.Op = "probe"
		}
		switch op.Op {
		case "root", "child":
			op.Ctor = rapid.IntRange(0, 2).Draw(t, "ctor")
			op.Type = rapid.IntRange(0, 3).Draw(t, "ntype")
			op.Data = rapid.SampledFrom([]string{"a", "b", "", "x y", "é"}).Draw(t, "data")
			op.Target = rapid.IntRange(0, c12MaxNodes).Draw(t, "parent")
			live++
		case "remove":
			op.Target = rapid.IntRange(0, c12MaxNodes).Draw(t, "victim")
			op.Pos = rapid.IntRange(0, 4).Draw(t, "pos")
			if live > 0 {
				live--
			}
		case "probe":
			op.K = rapid.IntRange(2, 8).Draw(t, "k")
		}
		ops = append(ops, op)
	}
	// a long run of bare acquire/release cycles of one node somewhere in the history: ID schemes that pack a counter
	// into a few bits, or wrap, only collide after tens of thousands of reuses of the same pooled node
	// (under -race sync.Pool drops a quarter of all Puts at random, so a node survives only a few reuses there: the long
	// runs are TestC12Churn's, on the plain build)
	if rapid.IntRange(0, 24).Draw(t, "withChurn") == 12 {
		at := rapid.IntRange(0, len(ops)).Draw(t, "churnAt")
		ops = append(ops[:at], append([]c12Op{{Op: "churn", K: 300}}, ops[at:]...)...)
	}
	return ops
}

// genC12Churn: a short history with one long run of acquire/release cycles in it (plain build: the pool hands the same
// node back every time, so one physical node is reused K times).
func genC12Churn(t *rapid.T) c12Case {
	ops := c12DrawOps(t)
	if len(ops) > 24 {
		ops = ops[:24]
	}
	at := rapid.IntRange(0, len(ops)).Draw(t, "longChurnAt")
	k := rapid.SampledFrom([]int{66000, 70000, 140000, 270000}).Draw(t, "longChurnK")
	ops = append(ops[:at:at], append([]c12Op{{Op: "churn", K: k}}, ops[at:]...)...)
	if rapid.IntRange(0, 2).Draw(t, "withFlood") == 0 {
		at := rapid.IntRange(0, len(ops)).Draw(t, "floodAt")
		k := rapid.SampledFrom([]int{1100, 5000, 9000, 17000, 33000}).Draw(t, "floodK")
		ops = append(ops[:at:at], append([]c12Op{{Op: "flood", K: k}}, ops[at:]...)...)
	}
	return c12Case{Kind: "ops", Ops: ops}
}

func genC12(t *rapid.T) c12Case {
	k := rapid.IntRange(0, 999).Draw(t, "caseKind")
	switch {
	case k >= 400 && k < 460: // ~1.5 %: concurrent round (values in the middle of the range: rapid favours the ends)
		c := c12Case{Kind: "conc"}
		g := rapid.SampledFrom([]int{2, 8, 32}).Draw(t, "goroutines")
		for i := 0; i < g; i++ {
			c.Batches = append(c.Batches, rapid.SliceOfN(rapid.IntRange(1, 6), 2, 12).Draw(t, "batches"))
		}
		c.Churn = rapid.SampledFrom([]int{0, 50, 200, 500}).Draw(t, "churn")
		return c
	case k >= 500 && k < 900: // ~10 %: reader
		c := c12Case{Kind: "reader"}
		if rapid.IntRange(0, 3).Draw(t, "hierArm") == 0 {
			format := rapid.SampledFrom([]string{"edi", "csv2", "fixedlength2"}).Draw(t, "hierFormat")
			h := gen.DrawHierarchy(t, format, gen.HierOpts{Tags: []string{"A", "B", "C", "D"}})
			c.Hier = &h
			c.Units = gen.DrawUnits(t, h, []string{"A", "B", "C", "D"})
			r := gen.DrawHRender(t, format, len(c.Units))
			c.HR = &r
			c.Shape = &gen.Shape{Format: format}
			if rapid.IntRange(0, 5).Draw(t, "truncated") == 3 {
				c.Truncate = rapid.IntRange(1, len(c.readerInput())+1).Draw(t, "truncate")
			}
			c.NoRelease = rapid.SliceOfN(rapid.Bool(), 1, 4).Draw(t, "noRelease")
			return c
		}
		s := gen.DrawShape(t, gen.ShapeOpts{PlainOnly: true, NoIntCol: true})
		c.Shape = &s
		c.Recs = gen.DrawRecs(t, s, "r", 0, 7, gen.ValueOpts{})
		if rapid.IntRange(0, 5).Draw(t, "truncated") == 3 {
			c.Truncate = rapid.IntRange(1, len(s.Render(c.Recs))+1).Draw(t, "truncate")
		}
		c.NoRelease = rapid.SliceOfN(rapid.Bool(), 1, 4).Draw(t, "noRelease")
		return c
	case k >= 460 && k < 540: // ~3 %: several top-level JSON values
		c := c12Case{Kind: "jsonvalues"}
		c.Values = rapid.SliceOfN(rapid.SampledFrom([]string{`{"k":"y","v":1}`, `{"k":"n"}`, `[1,2]`, `"s"`, `{"k":"y","a":[{"k":"n"}]}`, `{"k":"n","a":[{"k":"y"}]}`, `7`, `{}`}), 2, 5).Draw(t, "values")
		c.Sep = rapid.SampledFrom([]string{"", " ", "\n"}).Draw(t, "valueSep")
		c.XPath = rapid.SampledFrom([]string{".", ".[k='y']", ".[k!='y']", "/*", "/a/*", "/a/*[k='y']", ".[a/k='y']"}).Draw(t, "valuesXPath")
		c.NoRelease = rapid.SliceOfN(rapid.Bool(), 1, 4).Draw(t, "noRelease")
		return c
	default:
		return c12Case{Kind: "ops", Ops: c12DrawOps(t)}
	}
}

// ---------------------------------------------------------------------------------------------
// (a) state machine

type c12M struct {
	n    *idr.Node
	id   int64
	typ  idr.NodeType
	data string
	fs   interface{}
	par  *c12M
	kids []*c12M
}

type c12State struct {
	roots []*c12M
	all   []*c12M             // live nodes, acquisition order
	live  map[*idr.Node]*c12M // same set, by pointer
	// pointers released by this case and not handed out to it again since
	released map[*idr.Node]bool
	// every ID this case has seen on a node it held (at acquisition)
	ids    map[int64]bool
	reuses int
}

func c12FSEqual(a, b interface{}) bool {
	switch x := a.(type) {
	case nil:
		return b == nil
	case idr.XMLSpecific:
		y, ok := b.(idr.XMLSpecific)
		return ok && x == y
	case idr.JSONType:
		y, ok := b.(idr.JSONType)
		return ok && x == y
	}
	return false
}

// acquire gets a node from the code under test and checks everything that must hold at that moment.
func (s *c12State) acquire(ctor int, typ idr.NodeType, data string) (*c12M, error) {
	var n *idr.Node
	var fs interface{}
	switch ctor {
	case 1:
		x := idr.XMLSpecific{NamespacePrefix: "p" + data, NamespaceURI: "urn:" + data}
		fs = x
		n = idr.CreateXMLNode(typ, data, x)
	case 2:
		j := idr.JSONType(1 << uint(len(data)%8))
		fs = j
		n = idr.CreateJSONNode(typ, data, j)
	default:
		n = idr.CreateNode(typ, data)
	}
	if n == nil {
		return nil, fmt.Errorf("constructor returned nil")
	}
	if m, isLive := s.live[n]; isLive {
		return nil, fmt.Errorf("a node that is still live (model index %d, %s %q) was handed out a second time", s.indexOf(m), m.typ, m.data)
	}
	if n.Parent != nil || n.FirstChild != nil || n.LastChild != nil || n.PrevSibling != nil || n.NextSibling != nil {
		return nil, fmt.Errorf("freshly acquired node is not blank: it has links (parent=%v first=%v last=%v prev=%v next=%v)",
			n.Parent != nil, n.FirstChild != nil, n.LastChild != nil, n.PrevSibling != nil, n.NextSibling != nil)
	}
	if n.Type != typ || n.Data != data {
		return nil, fmt.Errorf("freshly acquired node has Type=%s Data=%q, requested %s %q", n.Type, n.Data, typ, data)
	}
	if !c12FSEqual(fs, n.FormatSpecific) {
		return nil, fmt.Errorf("freshly acquired node has FormatSpecific=%#v, the constructor was given %#v", n.FormatSpecific, fs)
	}
	if s.ids[n.ID] {
		return nil, fmt.Errorf("node acquired with an ID that an earlier acquisition of this history already carried")
	}
	s.ids[n.ID] = true
	if s.released[n] {
		delete(s.released, n)
		s.reuses++
	}
	m := &c12M{n: n, id: n.ID, typ: typ, data: data, fs: fs}
	s.all = append(s.all, m)
	s.live[n] = m
	return m, nil
}

func (s *c12State) indexOf(m *c12M) int {
	for i, x := range s.all {
		if x == m {
			return i
		}
	}
	return -1
}

func c12Collect(m *c12M, out *[]*c12M) {
	*out = append(*out, m)
	for _, k := range m.kids {
		c12Collect(k, out)
	}
}

// remove mirrors RemoveAndReleaseTree(m.n) in the model.
func (s *c12State) remove(m *c12M) {
	var sub []*c12M
	c12Collect(m, &sub)
	idr.RemoveAndReleaseTree(m.n)
	gone := map[*c12M]bool{}
	for _, x := range sub {
		gone[x] = true
		delete(s.live, x.n)
		s.released[x.n] = true
	}
	if m.par != nil {
		ks := m.par.kids[:0:0]
		for _, k := range m.par.kids {
			if k != m {
				ks = append(ks, k)
			}
		}
		m.par.kids = ks
	} else {
		rs := s.roots[:0:0]
		for _, r := range s.roots {
			if r != m {
				rs = append(rs, r)
			}
		}
		s.roots = rs
	}
	keep := s.all[:0:0]
	for _, x := range s.all {
		if !gone[x] {
			keep = append(keep, x)
		}
	}
	s.all = keep
}

// audit compares every live tree with the model.
func (s *c12State) audit() error {
	for ri, r := range s.roots {
		if r.n.Parent != nil || r.n.PrevSibling != nil || r.n.NextSibling != nil {
			return fmt.Errorf("root %d of the forest has parent/sibling links", ri)
		}
		if err := model.AuditSubtree(r.n); err != nil {
			return fmt.Errorf("link audit of tree %d: %v", ri, err)
		}
		var sub []*c12M
		c12Collect(r, &sub)
		for _, m := range sub {
			if m.n.ID != m.id {
				return fmt.Errorf("live node (model index %d) no longer has the ID it was acquired with (recycled while live)", s.indexOf(m))
			}
			if m.n.Type != m.typ || m.n.Data != m.data || !c12FSEqual(m.fs, m.n.FormatSpecific) {
				return fmt.Errorf("live node (model index %d) changed: Type=%s Data=%q FormatSpecific=%#v, acquired as %s %q %#v", s.indexOf(m), m.n.Type, m.n.Data, m.n.FormatSpecific, m.typ, m.data, m.fs)
			}
			i := 0
			for c := m.n.FirstChild; c != nil; c = c.NextSibling {
				if s.released[c] {
					return fmt.Errorf("released node is still reachable: child %d of live node (model index %d)", i, s.indexOf(m))
				}
				if i >= len(m.kids) || m.kids[i].n != c {
					return fmt.Errorf("children of live node (model index %d) differ from the model at position %d (model has %d children)", s.indexOf(m), i, len(m.kids))
				}
				i++
			}
			if i != len(m.kids) {
				return fmt.Errorf("live node (model index %d) has %d children, the model %d", s.indexOf(m), i, len(m.kids))
			}
		}
	}
	return nil
}

func c12RunOps(c c12Case) obs.Result {
	s := &c12State{live: map[*idr.Node]*c12M{}, released: map[*idr.Node]bool{}, ids: map[int64]bool{}}
	classes := map[string]bool{"kind=ops": true}
	applied, nonRootRemoved, reuseAfterNonRootRemoval := 0, false, false
	fail := func(i int, op c12Op, err error) obs.Result {
		return obs.Violationf("step %d (%+v): %v\n%s", i, op, err, c12Describe(s))
	}
	for i, op := range c.Ops {
		before := s.reuses
		switch op.Op {
		case "root":
			if len(s.roots) >= c12MaxRoots || len(s.all) >= c12MaxNodes {
				continue
			}
			m, err := s.acquire(op.Ctor, idr.NodeType(op.Type&3), op.Data)
			if err != nil {
				return fail(i, op, err)
			}
			s.roots = append(s.roots, m)
		case "child":
			if len(s.all) == 0 || len(s.all) >= c12MaxNodes {
				continue
			}
			p := s.all[c12Mod(op.Target, len(s.all))]
			m, err := s.acquire(op.Ctor, idr.NodeType(op.Type&3), op.Data)
			if err != nil {
				return fail(i, op, err)
			}
			idr.AddChild(p.n, m.n)
			m.par = p
			p.kids = append(p.kids, m)
			classes["add-child"] = true
		case "remove":
			if len(s.all) == 0 {
				continue
			}
			v := s.all[c12Mod(op.Target, len(s.all))]
			switch {
			case op.Pos == 1 && len(v.kids) > 0:
				v = v.kids[0]
			case op.Pos == 2 && len(v.kids) > 0:
				v = v.kids[len(v.kids)-1]
			case op.Pos == 3 && len(v.kids) > 2:
				v = v.kids[len(v.kids)/2]
			case op.Pos == 4:
				for v.par != nil {
					v = v.par
				}
			}
			switch {
			case v.par == nil:
				classes["remove=root"] = true
			case len(v.par.kids) == 1:
				classes["remove=only-child"] = true
			case v.par.kids[0] == v:
				classes["remove=first-child"] = true
			case v.par.kids[len(v.par.kids)-1] == v:
				classes["remove=last-child"] = true
			default:
				classes["remove=middle-child"] = true
			}
			if v.par != nil {
				nonRootRemoved = true
			}
			if len(v.kids) > 0 {
				classes["remove=with-subtree"] = true
			}
			s.remove(v)
		case "probe":
			k := op.K
			if k < 1 {
				k = 1
			}
			if k > 16 {
				k = 16
			}
			var got []*c12M
			for j := 0; j < k; j++ {
				m, err := s.acquire(0, idr.ElementNode, "probe")
				if err != nil {
					return fail(i, op, fmt.Errorf("pool probe, acquisition %d of %d: %v", j+1, k, err))
				}
				got = append(got, m) // acquire() has checked: not live (hence distinct from the earlier probe nodes too), blank, new ID
				s.roots = append(s.roots, m)
			}
			for _, m := range got {
				s.remove(m)
			}
			classes["pool-probe"] = true
		case "churn":
			k := op.K
			if k < 1 {
				k = 1
			}
			if k > 300000 {
				k = 300000
			}
			for j := 0; j < k; j++ {
				n := idr.CreateNode(idr.ElementNode, "churn")
				if m, isLive := s.live[n]; isLive {
					return fail(i, op, fmt.Errorf("churn cycle %d: a node that is still live (model index %d) was handed out a second time", j, s.indexOf(m)))
				}
				if n.Parent != nil || n.FirstChild != nil || n.LastChild != nil || n.PrevSibling != nil || n.NextSibling != nil || n.FormatSpecific != nil {
					return fail(i, op, fmt.Errorf("churn cycle %d: freshly acquired node is not blank", j))
				}
				if s.ids[n.ID] {
					owner := "a node released earlier in this history"
					for _, m := range s.live {
						if m.id == n.ID {
							owner = fmt.Sprintf("the live node at model index %d (%s %q)", s.indexOf(m), m.typ, m.data)
						}
					}
					return fail(i, op, fmt.Errorf("churn cycle %d of %d: node acquired with ID %d, which %s already carries/carried: IDs are not unique", j, k, n.ID, owner))
				}
				s.ids[n.ID] = true
				idr.RemoveAndReleaseTree(n)
			}
			classes["churn"] = true
			if k >= 1<<16 {
				classes["churn>=65536"] = true
			}
		case "flood":
			// a tree of k nodes released at once (k nodes sit in the pool together), then k+500 acquisitions: free lists
			// and pool front-ends with a capacity must not hand a node out twice
			k := op.K
			if k < 1 {
				k = 1
			}
			if k > 40000 {
				k = 40000
			}
			root := idr.CreateNode(idr.ElementNode, "flood")
			for j := 0; j < k-1; j++ {
				idr.AddChild(root, idr.CreateNode(idr.TextNode, "f"))
			}
			idr.RemoveAndReleaseTree(root)
			held := make(map[*idr.Node]bool, k+500)
			var order []*idr.Node
			for j := 0; j < k+500; j++ {
				n := idr.CreateNode(idr.ElementNode, "flood2")
				if held[n] {
					return fail(i, op, fmt.Errorf("flood: acquisition %d of %d after releasing a tree of %d nodes returned a node that an earlier acquisition of this run still holds", j, k+500, k))
				}
				if m, isLive := s.live[n]; isLive {
					return fail(i, op, fmt.Errorf("flood: acquisition %d returned a node that is still live in the model (index %d)", j, s.indexOf(m)))
				}
				if n.Parent != nil || n.FirstChild != nil || n.LastChild != nil || n.PrevSibling != nil || n.NextSibling != nil || n.FormatSpecific != nil {
					return fail(i, op, fmt.Errorf("flood: acquisition %d returned a node that is not blank", j))
				}
				if s.ids[n.ID] {
					return fail(i, op, fmt.Errorf("flood: acquisition %d returned a node with ID %d, which this history has seen before", j, n.ID))
				}
				s.ids[n.ID] = true
				held[n] = true
				order = append(order, n)
			}
			for _, n := range order {
				idr.RemoveAndReleaseTree(n)
			}
			classes["flood"] = true
		default:
			return obs.Result{Excluded: "unknown operation " + op.Op}
		}
		applied++
		if s.reuses > before && nonRootRemoved {
			reuseAfterNonRootRemoval = true
		}
		if err := s.audit(); err != nil {
			return fail(i, op, err)
		}
	}
	// hand everything back (also an exercise: releasing whole forests)
	for len(s.roots) > 0 {
		s.remove(s.roots[len(s.roots)-1])
	}
	obs.Count("c12_ops_applied", applied)
	obs.Count("c12_pool_reuses_observed", s.reuses)
	if s.reuses > 0 {
		classes["pool-reuse-observed"] = true
	}
	if reuseAfterNonRootRemoval {
		classes["ops:reuse-after-nonroot-removal"] = true
	}
	return obs.OK(reuseAfterNonRootRemoval, c12Keys(classes)...)
}

func c12Mod(i, n int) int {
	i %= n
	if i < 0 {
		i += n
	}
	return i
}

func c12Keys(m map[string]bool) []string {
	out := make([]string, 0, len(m))
	for k := range m {
		out = append(out, k)
	}
	sort.Strings(out)
	return out
}

// c12Describe renders the model forest (what the trees should look like).
func c12Describe(s *c12State) string {
	var b strings.Builder
	b.WriteString("model forest (index:type'data'):")
	idx := map[*c12M]int{}
	for i, m := range s.all {
		idx[m] = i
	}
	var rec func(m *c12M)
	rec = func(m *c12M) {
		fmt.Fprintf(&b, " %d:%d'%s'", idx[m], m.typ, m.data)
		if len(m.kids) > 0 {
			b.WriteString("(")
			for _, k := range m.kids {
				rec(k)
			}
			b.WriteString(" )")
		}
	}
	for _, r := range s.roots {
		b.WriteString(" [")
		rec(r)
		b.WriteString(" ]")
	}
	return b.String()
}

// ---------------------------------------------------------------------------------------------
// (b) readers

type c12Capture struct {
	inner   fileformat.FileFormat
	runtime interface{}
	hit     bool
}

func (f *c12Capture) ValidateSchema(format string, content []byte, decl *transform.Decl) (interface{}, error) {
	rt, err := f.inner.ValidateSchema(format, content, decl)
	if err == nil {
		f.runtime, f.hit = rt, true
	}
	return rt, err
}

func (f *c12Capture) CreateFormatReader(name string, r io.Reader, rt interface{}) (fileformat.FormatReader, error) {
	return f.inner.CreateFormatReader(name, r, rt)
}

// c12NewReader validates the schema through the public API and returns the format reader the
// schema handler would create for the input.
func c12NewReader(schema string, input []byte) (fileformat.FormatReader, error) {
	caps := []*c12Capture{
		{inner: fcsv.NewCSVFileFormat("schema")}, {inner: fcsv2.NewCSVFileFormat("schema")}, {inner: fedi.NewEDIFileFormat("schema")},
		{inner: ffixed.NewFixedLengthFileFormat("schema")}, {inner: ffixed2.NewFixedLengthFileFormat("schema")},
		{inner: fjson.NewJSONFileFormat("schema")}, {inner: fxml.NewXMLFileFormat("schema")},
	}
	ffs := make([]fileformat.FileFormat, len(caps))
	for i, c := range caps {
		ffs[i] = c
	}
	_, err := omniparser.NewSchema("schema", strings.NewReader(schema), omniparser.Extension{
		CreateSchemaHandler:       omniv21.CreateSchemaHandler,
		CreateSchemaHandlerParams: &omniv21.CreateParams{CustomFileFormats: ffs},
		CustomFuncs:               customfuncs.Merge(customfuncs.CommonCustomFuncs, v21funcs.OmniV21CustomFuncs),
	})
	if err != nil {
		return nil, err
	}
	for _, c := range caps {
		if c.hit {
			return c.inner.CreateFormatReader("input", bytes.NewReader(input), c.runtime)
		}
	}
	return nil, fmt.Errorf("no built-in file format accepted the schema")
}

func (c c12Case) readerInput() []byte {
	if c.Hier != nil && c.HR != nil {
		return c.Hier.RenderUnits(c.Units, *c.HR)
	}
	return c.Shape.Render(c.Recs)
}

func (c c12Case) readerSchema() string {
	if c.Hier != nil && c.HR != nil {
		return c.Hier.Schema(*c.HR)
	}
	return c.Shape.Schema()
}

func c12RunReader(c c12Case) obs.Result {
	if c.Shape == nil {
		return obs.Result{Excluded: "reader case without shape"}
	}
	in := c.readerInput()
	if c.Truncate > 0 && c.Truncate < len(in) {
		in = in[:c.Truncate]
	}
	rd, err := c12NewReader(c.readerSchema(), in)
	if err != nil {
		return obs.Violationf("generated schema rejected: %v\n%s", err, c.readerSchema())
	}
	classes := map[string]bool{"kind=reader": true, "format=" + c.Shape.Format: true}
	if c.Hier != nil {
		classes["reader:hierarchy"] = true
	}
	if c.Truncate > 0 {
		classes["truncated-input"] = true
	}
	describe := func() string {
		return fmt.Sprintf("format=%s schema=%s\ninput=%q", c.Shape.Format, c.readerSchema(), in)
	}

	// released: pointer -> ID the node had while it was part of a delivered record that has been released since
	released := map[*idr.Node]int64{}
	var pending map[*idr.Node]int64 // the record delivered last and not released through Release
	delivered, audited, reuses := 0, 0, 0
	maxReads := 2*len(in) + 64
	terminal := error(nil)
	for i := 0; i < maxReads; i++ {
		n, err := rd.Read()
		// whatever the last Read handed out and we did not give back has been released by the reader now
		for p, id := range pending {
			released[p] = id
		}
		pending = nil
		if err != nil {
			if err != io.EOF && rd.IsContinuableError(err) {
				classes["continuable-error"] = true
				continue
			}
			terminal = err
			break
		}
		if n == nil {
			return obs.Violationf("Read %d returned neither a node nor an error\n%s", i, describe())
		}
		delivered++
		// at delivery: the whole tree the record hangs in
		if err := model.AuditTree(n); err != nil {
			return obs.Violationf("record %d at delivery: %v\n%s", delivered, err, describe())
		}
		top, _ := model.Top(n)
		var bad error
		model.Walk(top, func(x *idr.Node) {
			if id, was := released[x]; was {
				if x.ID == id && bad == nil {
					bad = fmt.Errorf("node %s %s was part of an earlier record that has been released, and is reachable from record %d with the same ID", model.PathOf(x), model.DescribeNode(x), delivered)
				}
				delete(released, x) // handed out again (with a new ID): legitimately live now
				reuses++
			}
		})
		if bad != nil {
			return obs.Violationf("%v\n%s", bad, describe())
		}
		audited++
		snap := map[*idr.Node]int64{}
		model.Walk(n, func(x *idr.Node) { snap[x] = x.ID })
		if top != n {
			classes["record-under-persistent-ancestors"] = true
		}
		if len(c.NoRelease) > 0 && c.NoRelease[(delivered-1)%len(c.NoRelease)] {
			classes["record-not-released-by-caller"] = true
			if c.Shape.Format != "csv" { // the old csv reader documents nothing and releases nothing on Read: the tree stays the caller's
				pending = snap
			}
			continue
		}
		rd.Release(n)
		classes["released-by-caller"] = true
		for p, id := range snap {
			released[p] = id
		}
		if top != n {
			// after Release: what is left must be sound and must not reach into the released record
			if err := model.AuditTree(top); err != nil {
				return obs.Violationf("after Release of record %d: %v\n%s", delivered, err, describe())
			}
			model.Walk(top, func(x *idr.Node) {
				if _, was := snap[x]; was && bad == nil {
					bad = fmt.Errorf("after Release of record %d a node of the released record is still reachable (at %s)", delivered, model.PathOf(x))
				}
			})
			if bad != nil {
				return obs.Violationf("%v\n%s", bad, describe())
			}
			audited++
		}
	}
	if terminal == nil {
		return obs.Result{Excluded: "no terminal result within the read bound (C03's business)"}
	}
	if terminal == io.EOF {
		classes["terminal=eof"] = true
		// the reader must not trip over a root it released: one more Read after the end
		if n, err := rd.Read(); err == nil && n != nil {
			if aerr := model.AuditTree(n); aerr != nil {
				return obs.Violationf("record delivered after EOF: %v\n%s", aerr, describe())
			}
		}
	} else {
		classes["terminal=error"] = true
	}
	// the same input through the full Transform (ingester + reader): every tree handed out by RawRecord must be sound
	// too, also after a record the READER failed on (old csv: a malformed row is a per-record failure) and after
	// records whose transform failed
	if msg := c12ThroughTransform(c, in); msg != "" {
		return obs.Violationf("%s\n%s", msg, describe())
	}
	obs.Count("c12_reader_trees_audited", audited)
	obs.Count("c12_reader_pool_reuses_observed", reuses)
	if reuses > 0 {
		classes["reader:pool-reuse-observed"] = true
	}
	if delivered >= 2 {
		classes["reader:two-or-more-records"] = true
	}
	return obs.OK(delivered >= 2 && reuses > 0, c12Keys(classes)...)
}

// c12ThroughTransform drives omniparser.Transform over the input (for the old csv format with a malformed row spliced
// in after the first line) and audits the tree of every raw record.
func c12ThroughTransform(c c12Case, in []byte) string {
	if c.Shape.Format == "csv" && !c.Shape.ReplaceQuotes {
		if i := bytes.IndexByte(in, '\n'); i >= 0 {
			bad := []byte("ab\"cd" + c.Shape.Delim + "x\n")
			spliced := append(append(append([]byte{}, in[:i+1]...), bad...), in[i+1:]...)
			// also once more in the middle of the rest
			if j := bytes.LastIndexByte(spliced[:len(spliced)-1], '\n'); j > i+len(bad) {
				spliced = append(append(append([]byte{}, spliced[:j+1]...), bad...), spliced[j+1:]...)
			}
			in = spliced
		}
	}
	sch, err := omniparser.NewSchema("schema", strings.NewReader(c.readerSchema()))
	if err != nil {
		return ""
	}
	tr, err := sch.NewTransform("input", bytes.NewReader(in), &transformctx.Ctx{})
	if err != nil {
		return ""
	}
	for i := 0; i < 2*len(in)+64; i++ {
		_, err := tr.Read()
		if err != nil {
			if errs.IsErrTransformFailed(err) {
				continue
			}
			return ""
		}
		rr, rerr := tr.RawRecord()
		if rerr != nil {
			return fmt.Sprintf("through Transform: RawRecord after successful Read #%d failed: %v", i+1, rerr)
		}
		n, ok := rr.Raw().(*idr.Node)
		if !ok || n == nil {
			continue
		}
		if err := model.AuditTree(n); err != nil {
			return fmt.Sprintf("through Transform (input %q): the tree of the record delivered by Read #%d is not sound: %v", in, i+1, err)
		}
	}
	return ""
}

// ---------------------------------------------------------------------------------------------
// (c) goroutines

func c12RunConc(c c12Case) obs.Result {
	g := len(c.Batches)
	if g == 0 {
		return obs.Result{Excluded: "concurrent case without goroutines"}
	}
	var owners sync.Map // *idr.Node -> goroutine index, for nodes currently held
	idsPer := make([][]int64, g)
	errsPer := make([]error, g)
	start := make(chan struct{})
	var wg sync.WaitGroup
	for gi := 0; gi < g; gi++ {
		wg.Add(1)
		go func(gi int) {
			defer wg.Done()
			defer func() {
				if p := recover(); p != nil && errsPer[gi] == nil {
					errsPer[gi] = fmt.Errorf("panic: %v", p)
				}
			}()
			<-start
			marker := fmt.Sprintf("g%d", gi)
			acquire := func() (*idr.Node, error) {
				n := idr.CreateNode(idr.ElementNode, marker)
				if prev, dup := owners.LoadOrStore(n, gi); dup {
					_ = prev
					return nil, fmt.Errorf("one node handed to two owners at once: a goroutine acquired a node that another goroutine still holds")
				}
				if n.Parent != nil || n.FirstChild != nil || n.LastChild != nil || n.PrevSibling != nil || n.NextSibling != nil ||
					n.FormatSpecific != nil || n.Type != idr.ElementNode || n.Data != marker {
					return nil, fmt.Errorf("a goroutine acquired a node that is not blank (links, Type, Data or FormatSpecific left over)")
				}
				idsPer[gi] = append(idsPer[gi], n.ID)
				n.FormatSpecific = idr.JSONType(gi + 1) // written while owned: an aliased node would show another owner's stamp
				return n, nil
			}
			release := func(root *idr.Node, nodes []*idr.Node) {
				for _, n := range nodes {
					owners.Delete(n)
				}
				idr.RemoveAndReleaseTree(root)
			}
			for _, size := range c.Batches[gi] {
				if size < 1 {
					size = 1
				}
				var nodes []*idr.Node
				ids := map[*idr.Node]int64{}
				for j := 0; j < size; j++ {
					n, err := acquire()
					if err != nil {
						errsPer[gi] = err
						return
					}
					ids[n] = n.ID
					if j > 0 {
						idr.AddChild(nodes[(j-1)/2], n) // a small binary tree
					}
					nodes = append(nodes, n)
				}
				runtime.Gosched()
				for _, n := range nodes {
					if n.ID != ids[n] || n.Data != marker || n.FormatSpecific != idr.JSONType(gi+1) {
						errsPer[gi] = fmt.Errorf("a node held by one goroutine changed under it (ID changed: %v, Data changed: %v, owner stamp changed: %v)", n.ID != ids[n], n.Data != marker, n.FormatSpecific != idr.JSONType(gi+1))
						return
					}
				}
				if err := model.AuditTree(nodes[0]); err != nil {
					errsPer[gi] = fmt.Errorf("tree built and held by one goroutine: %v", err)
					return
				}
				release(nodes[0], nodes)
			}
			for j := 0; j < c.Churn; j++ {
				n, err := acquire()
				if err != nil {
					errsPer[gi] = err
					return
				}
				release(n, []*idr.Node{n})
			}
		}(gi)
	}
	close(start)
	wg.Wait()
	for _, err := range errsPer {
		if err != nil {
			return obs.Violationf("%d goroutines: %v", g, err)
		}
	}
	seen := map[int64]int{}
	total := 0
	for gi, ids := range idsPer {
		for _, id := range ids {
			total++
			if other, dup := seen[id]; dup {
				_ = other
				return obs.Violationf("%d goroutines: two acquisitions carried the same ID", g)
			}
			seen[id] = gi
		}
	}
	obs.Count("c12_conc_acquisitions", total)
	return obs.OK(g >= 2 && total >= 2*g, "kind=conc", fmt.Sprintf("goroutines=%d", g))
}

// ---------------------------------------------------------------------------------------------

// c12RunJSONValues: whatever the JSON stream reader does with data after the first top-level value, every node it
// hands out must belong to a sound tree.
func c12RunJSONValues(c c12Case) obs.Result {
	in := strings.Join(c.Values, c.Sep)
	r, err := idr.NewJSONStreamReader(strings.NewReader(in), c.XPath)
	if err != nil {
		return obs.Result{Excluded: "xpath rejected: " + err.Error()}
	}
	delivered := 0
	for i := 0; i < 4*len(c.Values)+8; i++ {
		n, err := r.Read()
		if err != nil {
			break
		}
		if n == nil {
			return obs.Violationf("json reader over %q with xpath %q: Read %d returned (nil, nil)", in, c.XPath, i)
		}
		if err := model.AuditTree(n); err != nil {
			return obs.Violationf("json reader over %q with xpath %q: the tree of the node delivered by Read %d is unsound: %v", in, c.XPath, i, err)
		}
		delivered++
		// (a node that is not handed back is released by the reader itself at its next Read)
		if !(len(c.NoRelease) > 0 && c.NoRelease[i%len(c.NoRelease)]) {
			r.Release(n)
		}
	}
	return obs.OK(delivered >= 1, "kind=jsonvalues")
}

func checkC12(c c12Case) obs.Result {
	switch c.Kind {
	case "ops":
		return c12RunOps(c)
	case "reader":
		return c12RunReader(c)
	case "conc":
		return c12RunConc(c)
	case "jsonvalues":
		return c12RunJSONValues(c)
	}
	return obs.Result{Excluded: "unknown case kind " + c.Kind}
}

func TestC12(t *testing.T) {
	obs.Run(t, "C12", genC12, checkC12)
}

func TestC12Churn(t *testing.T) {
	obs.Run(t, "C12", genC12Churn, checkC12)
}
