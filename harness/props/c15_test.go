package props

// C15 — Results and checksums are a deterministic function of schema and input (metamorphic:
// repetition, warmed-up process, fresh process; checksum injectivity on leaf mutations).

import (
	"bytes"
	"encoding/json"
	"fmt"
	"os"
	"os/exec"
	"strings"
	"testing"

	"github.com/jf-tech/omniparser"
	"github.com/jf-tech/omniparser/customfuncs"
	"github.com/jf-tech/omniparser/extensions/omniv21"
	v21 "github.com/jf-tech/omniparser/extensions/omniv21/customfuncs"
	"github.com/jf-tech/omniparser/transformctx"
	"pgregory.net/rapid"

	"verifharness/gen"
	"verifharness/obs"
	"verifharness/run"
)

type c15Other struct {
	Shape gen.Shape `json:"shape"`
	Recs  []gen.Rec `json:"recs"`
	// SameSchema: this earlier transform uses the very Schema OBJECT of the measured transform (a Schema may be
	// shared and reused); Cut > 0 truncates its input at that offset, so that it ends in the middle of a record.
	SameSchema bool `json:"same_schema,omitempty"`
	Cut        int  `json:"cut,omitempty"`
	// Sample > 0: repository sample number Sample instead of Shape/Recs
	Sample int `json:"sample,omitempty"`
}

func c15Subject(sample int, s gen.Shape, recs []gen.Rec) (schema string, in []byte, ok bool) {
	if sample > 0 {
		sch, in, _, ok := sampleOf(sample)
		return sch, in, ok
	}
	return s.Schema(), s.Render(recs), true
}

type c15Case struct {
	Shape  gen.Shape  `json:"shape"`
	Recs   []gen.Rec  `json:"recs"`
	Others []c15Other `json:"others"`
	Child  bool       `json:"child"` // also compare with a run in a fresh process
	MutRec int        `json:"mut_rec"`
	MutCol int        `json:"mut_col"` // < NCols: a column; >= NCols: a sub-record value
	MutSub int        `json:"mut_sub"`
	// Sample > 0: the measured transform is repository sample number Sample instead of Shape/Recs
	Sample int `json:"sample,omitempty"`
	// OwnExtension: somewhere in the history the process builds an Extension the documented way - customfuncs.Merge(
	// CommonCustomFuncs, OmniV21CustomFuncs, own functions), the own ones overriding builtins ("upper", "lower", "concat")
	// and adding a new name - and runs a transform through it. Schemas of the default extension must not notice.
	OwnExtension bool `json:"own_extension,omitempty"`
	// ReuseCtx: the other transforms and the second measured run are given ONE transformctx.Ctx value (each under its
	// own input name), as a caller does who builds the context once.
	ReuseCtx bool `json:"reuse_ctx,omitempty"`
}

func genC15(t *rapid.T) c15Case {
	c := c15Case{}
	c.Shape = gen.DrawShape(t, gen.ShapeOpts{})
	c.Shape.HostZone = rapid.IntRange(0, 2).Draw(t, "hostZone") == 0
	if rapid.IntRange(0, 4).Draw(t, "externals") == 0 {
		c.Shape.Xform = 4 // output depends on external properties
	}
	c.Recs = gen.DrawRecs(t, c.Shape, "r", 0, 6, gen.ValueOpts{})
	if rapid.IntRange(0, 7).Draw(t, "sampleArm") == 0 {
		if c.Sample = drawSample(t, "sample"); c.Sample > 0 {
			_, _, name, _ := sampleOf(c.Sample)
			c.Shape, c.Recs = gen.Shape{Format: sampleFormat(name)}, nil
		}
	}
	n := rapid.IntRange(0, 5).Draw(t, "nothers")
	for i := 0; i < n; i++ {
		o := c15Other{}
		if rapid.IntRange(0, 2).Draw(t, fmt.Sprintf("o%dsame", i)) == 0 {
			o.Shape = c.Shape // same schema, other data: fills the same cache keys
			o.Sample = c.Sample
			o.SameSchema = rapid.Bool().Draw(t, fmt.Sprintf("o%dsameObj", i))
			if rapid.Bool().Draw(t, fmt.Sprintf("o%dcut", i)) {
				o.Cut = rapid.IntRange(1, 400).Draw(t, fmt.Sprintf("o%dcutAt", i))
			}
		} else if rapid.IntRange(0, 5).Draw(t, fmt.Sprintf("o%dsample", i)) == 0 {
			o.Sample = drawSample(t, fmt.Sprintf("o%dsampleNo", i))
		} else {
			o.Shape = gen.DrawShape(t, gen.ShapeOpts{})
		}
		if o.Sample == 0 {
			o.Recs = gen.DrawRecs(t, o.Shape, fmt.Sprintf("o%d", i), 0, 4, gen.ValueOpts{})
		}
		c.Others = append(c.Others, o)
	}
	c.Child = rapid.IntRange(0, 2).Draw(t, "child") == 0
	c.OwnExtension = rapid.IntRange(0, 3).Draw(t, "ownExtension") == 0
	c.ReuseCtx = rapid.IntRange(0, 2).Draw(t, "reuseCtx") == 0
	if len(c.Recs) > 0 {
		c.MutRec = rapid.IntRange(0, len(c.Recs)-1).Draw(t, "mutRec")
		c.MutCol = rapid.IntRange(0, c.Shape.NCols+c.Shape.NSub-1).Draw(t, "mutCol")
		c.MutSub = rapid.IntRange(0, 3).Draw(t, "mutSub")
		if c.Shape.Format == "xml" && c.Shape.XMLAttr && rapid.Bool().Draw(t, "mutAttrCol") {
			c.MutCol = c.Shape.NCols - 1 // the column that is written as an attribute
		}
	}
	return c
}

type c15ChildDoc struct {
	Schema string `json:"schema"`
	Input  []byte `json:"input"`
}

const c15ChildMarker = "C15CHILD:"

// TestC15Child is the fresh-process side of C15: it prints the transcript of one (schema, input).
func TestC15Child(t *testing.T) {
	p := os.Getenv("VERIF_C15_CHILD")
	if p == "" {
		t.Skip("helper process of TestC15")
	}
	b, err := os.ReadFile(p)
	if err != nil {
		t.Fatal(err)
	}
	var doc c15ChildDoc
	if err := json.Unmarshal(b, &doc); err != nil {
		t.Fatal(err)
	}
	steps, err := c15Run(doc.Schema, doc.Input)
	if err != nil {
		fmt.Printf("%sERR %v\n", c15ChildMarker, err)
		return
	}
	out, _ := json.Marshal(steps)
	fmt.Printf("%s%s\n", c15ChildMarker, out)
}

// c15ExtA are the external properties of the measured transform, c15ExtB those of the other transforms.
var (
	c15ExtA = map[string]string{"tag": "A", "xp": "c0", "num": "7", "flag": "true"}
	c15ExtB = map[string]string{"tag": "B", "xp": "*[last()]", "num": "9", "flag": "false"}
)

func c15Run(schema string, in []byte) ([]run.Step, error) {
	sch, err := run.NewSchema(schema)
	if err != nil {
		return nil, fmt.Errorf("schema rejected: %v", err)
	}
	return run.Transcript(sch, bytes.NewReader(in), run.Opts{InputLen: len(in), WithRaw: true, External: c15ExtA})
}

func c15RunChild(schema string, in []byte) ([]run.Step, error) {
	f, err := os.CreateTemp("", "c15-*.json")
	if err != nil {
		return nil, err
	}
	defer os.Remove(f.Name())
	b, _ := json.Marshal(c15ChildDoc{Schema: schema, Input: in})
	f.Write(b)
	f.Close()
	cmd := exec.Command(os.Args[0], "-test.run", "^TestC15Child$", "-test.count", "1")
	// (the fresh process lives in another local time zone than this one, if the host has the zone database: the local
	// zone of the host is not among the things the results may depend on)
	tz := "Asia/Tokyo"
	if os.Getenv("TZ") == tz {
		tz = "America/St_Johns"
	}
	cmd.Env = append(os.Environ(), "VERIF_C15_CHILD="+f.Name(), "VERIF_OUT=", "VERIF_REPLAY=", "TZ="+tz)
	out, err := cmd.Output()
	if err != nil {
		return nil, fmt.Errorf("child process failed: %v\n%s", err, out)
	}
	for _, line := range strings.Split(string(out), "\n") {
		if strings.HasPrefix(line, c15ChildMarker) {
			rest := strings.TrimPrefix(line, c15ChildMarker)
			if strings.HasPrefix(rest, "ERR ") {
				return nil, fmt.Errorf("child: %s", rest)
			}
			var steps []run.Step
			if err := json.Unmarshal([]byte(rest), &steps); err != nil {
				return nil, err
			}
			return steps, nil
		}
	}
	return nil, fmt.Errorf("child printed no transcript:\n%s", out)
}

// c15UseOwnExtension does what doc/programmability.md shows: an Extension whose function table is Merge(common, omni.2.1,
// own), the own functions shadowing builtins, used for one schema and one transform. Returns "" unless that use itself
// misbehaves.
func c15UseOwnExtension() string {
	own := customfuncs.CustomFuncs{
		"upper":  func(_ *transformctx.Ctx, s string) (string, error) { return "OWN-UPPER(" + s + ")", nil },
		"lower":  func(_ *transformctx.Ctx, s string) (string, error) { return "OWN-LOWER(" + s + ")", nil },
		"concat": func(_ *transformctx.Ctx, ss ...string) (string, error) { return "OWN-CONCAT", nil },
		"c15own": func(_ *transformctx.Ctx, s string) (string, error) { return "own:" + s, nil },
	}
	ext := omniparser.Extension{
		CreateSchemaHandler: omniv21.CreateSchemaHandler,
		CustomFuncs:         customfuncs.Merge(customfuncs.CommonCustomFuncs, v21.OmniV21CustomFuncs, own),
	}
	schema := `{"parser_settings":{"version":"omni.2.1","file_format_type":"json"},"transform_declarations":{"FINAL_OUTPUT":{"object":{
		"u":{"custom_func":{"name":"upper","args":[{"xpath":"a"}]}},"o":{"custom_func":{"name":"c15own","args":[{"xpath":"a"}]}}}}}}`
	sch, err := omniparser.NewSchema("own", strings.NewReader(schema), ext)
	if err != nil {
		return "schema for a caller-built extension rejected: " + err.Error()
	}
	steps, err := run.Transcript(sch, strings.NewReader(`{"a":"x"}`), run.Opts{InputLen: 9})
	if err != nil || len(steps) == 0 || steps[0].JSON != `{"o":"own:x","u":"OWN-UPPER(x)"}` {
		return fmt.Sprintf("a caller-built extension (own functions shadowing builtins) does not use the caller's functions: %+v %v", steps, err)
	}
	return ""
}

func checkC15(c c15Case) obs.Result {
	schema, in, ok := c15Subject(c.Sample, c.Shape, c.Recs)
	if !ok {
		return obs.Result{Excluded: "no such sample"}
	}
	classes := []string{"format=" + c.Shape.Format, fmt.Sprintf("xform=%d", c.Shape.Xform)}
	if c.Sample > 0 {
		classes = append(classes, "repo-sample")
	}
	if c.Sample == 0 && c.Shape.HostZone && c.Child {
		classes = append(classes, "zoneless-datetime-calls+fresh-process-in-another-zone")
	}
	shared, err := run.NewSchema(schema)
	if err != nil {
		return obs.Result{Excluded: "schema rejected: " + err.Error()}
	}
	onSharedExt := func(input []byte, ext map[string]string) ([]run.Step, error) {
		return run.Transcript(shared, bytes.NewReader(input), run.Opts{InputLen: len(input), WithRaw: true, External: ext})
	}
	onShared := func(input []byte) ([]run.Step, error) { return onSharedExt(input, c15ExtA) }
	var reused *transformctx.Ctx
	if c.ReuseCtx {
		reused = &transformctx.Ctx{}
		classes = append(classes, "ctx-value-reused")
	}
	// the Schema object's very first use is by ANOTHER transform (other external properties, same input): whatever it
	// computes must not stick to the schema (compared below with a run on a freshly parsed Schema)
	if c.Child || len(c.Others)%2 == 1 {
		_, _ = onSharedExt(in, c15ExtB)
		classes = append(classes, "schema-first-used-by-another-transform")
	}
	first, err := onShared(in)
	if err != nil {
		return obs.Result{Excluded: "no terminal result: " + err.Error()}
	}
	// other transforms in the same process: fill pools and caches, advance the ID counter; some of them use the
	// very same Schema object, some of those on an input that ends in the middle of a record
	if c.OwnExtension {
		if msg := c15UseOwnExtension(); msg != "" {
			return obs.Violationf("%s", msg)
		}
		classes = append(classes, "own-extension-in-history")
	}
	for oi, o := range c.Others {
		oschema, oin, ok := c15Subject(o.Sample, o.Shape, o.Recs)
		if !ok {
			continue
		}
		if o.Cut > 0 && len(oin) > 0 {
			oin = oin[:o.Cut%len(oin)]
		}
		if o.SameSchema {
			if _, err := onSharedExt(oin, c15ExtB); err != nil {
				return obs.Result{Excluded: "other transform has no terminal result"}
			}
			classes = append(classes, "shared-schema-object")
			if o.Cut > 0 {
				classes = append(classes, "shared-schema-object+truncated-input")
			}
			continue
		}
		if reused != nil {
			osch, err := run.NewSchema(oschema)
			if err != nil {
				continue
			}
			if _, err := run.Transcript(osch, bytes.NewReader(oin), run.Opts{InputLen: len(oin), WithRaw: true, External: c15ExtB, Ctx: reused, InputName: fmt.Sprintf("other-%d", oi)}); err != nil {
				return obs.Result{Excluded: "other transform has no terminal result"}
			}
			continue
		}
		if _, err := c15Run(oschema, oin); err != nil {
			return obs.Result{Excluded: "other transform has no terminal result"}
		}
	}
	second, err := run.Transcript(shared, bytes.NewReader(in), run.Opts{InputLen: len(in), WithRaw: true, External: c15ExtA, Ctx: reused})
	if err != nil {
		return obs.Violationf("second run of the same transform does not terminate: %v", err)
	}
	// and a run on a freshly parsed Schema must agree with the reused one
	if fresh, err := c15Run(schema, in); err != nil {
		return obs.Violationf("run on a freshly parsed schema does not terminate: %v", err)
	} else if d := run.Diff(first, fresh, run.Step.KeyExact); d != "" {
		return obs.Violationf("a freshly parsed Schema gives other results than the reused Schema object (A reused, B fresh):\n%s\ninput %q", d, in)
	}
	if d := run.Diff(first, second, run.Step.KeyExact); d != "" {
		return obs.Violationf("repeating the transform after %d other transforms changes the results (A first run, B second run):\n%s\ninput %q", len(c.Others), d, in)
	}
	if len(c.Others) > 0 {
		classes = append(classes, "warmed")
	}
	if c.Child {
		child, err := c15RunChild(schema, in)
		if err != nil {
			return obs.Result{Excluded: "child process trouble: " + err.Error()}
		}
		if d := run.Diff(first, child, run.Step.KeyExact); d != "" {
			return obs.Violationf("a fresh process produces different results (A this process, B fresh process):\n%s\ninput %q", d, in)
		}
		classes = append(classes, "fresh-process")
	}
	// checksums are a function of the raw record: equal raw <=> equal checksum (on the observed set)
	byRaw := map[string]string{}
	bySum := map[string]string{}
	nrec := 0
	for _, st := range first {
		if st.Kind != "rec" {
			continue
		}
		nrec++
		if prev, ok := byRaw[st.RawJSON]; ok && prev != st.Checksum {
			return obs.Violationf("equal raw records have different checksums %s / %s: raw %s", prev, st.Checksum, st.RawJSON)
		}
		byRaw[st.RawJSON] = st.Checksum
		if prev, ok := bySum[st.Checksum]; ok && prev != st.RawJSON {
			return obs.Violationf("different raw records share checksum %s:\n%s\n%s", st.Checksum, prev, st.RawJSON)
		}
		bySum[st.Checksum] = st.RawJSON
	}
	// leaf mutation: exactly one ingested value changes => that record's checksum changes, the others' do not
	if len(c.Recs) > 0 {
		mut, ok := c15Mutate(c)
		if ok {
			min := c.Shape.Render(mut)
			mres, err := c15Run(schema, min)
			if err == nil && len(mres) == len(first) {
				// map record index -> step index (filtered records produce no step)
				stepOf := map[int]int{}
				si := 0
				for i, r := range c.Recs {
					if c.Shape.Filter && c.Shape.IntCol != 0 && strings.HasPrefix(r.Vals[0], c.Shape.SkipToken()) {
						continue
					}
					stepOf[i] = si
					si++
				}
				if si == len(first)-1 {
					for i := range c.Recs {
						s, ok := stepOf[i]
						if !ok || first[s].Kind != "rec" || mres[s].Kind != "rec" {
							continue
						}
						if i == c.MutRec {
							if first[s].Checksum == mres[s].Checksum {
								if c.Shape.Format == "xml" && c.Shape.XMLAttr && c.MutCol == c.Shape.NCols-1 && first[s].RawJSON == mres[s].RawJSON &&
									obs.KnownOpen("c15-checksum-blind-to-attributes-of-text-only-elements") {
									// open finding: the checksum is taken over a JSON rendering of the record that leaves out the
									// attributes of an element whose only other content is text
									return obs.Result{Known: "c15-checksum-blind-to-attributes-of-text-only-elements", Classes: classes}
								}
								return obs.Violationf("record %d differs in one ingested value but its checksum is unchanged (%s)\noriginal input %q\nmutated input  %q\nraw before %s\nraw after  %s",
									i, first[s].Checksum, in, min, first[s].RawJSON, mres[s].RawJSON)
							}
							classes = append(classes, "leaf-mutation")
						} else if first[s].Checksum != mres[s].Checksum {
							return obs.Violationf("record %d is unchanged but its checksum changed when record %d was modified\noriginal input %q\nmutated input  %q", i, c.MutRec, in, min)
						}
					}
				}
			}
		}
	}
	keys := c.Shape.NCols
	if c.Shape.Xform > 0 {
		keys += 3
	}
	nt := nrec >= 2 && (keys >= 3 || c.Sample > 0) && len(c.Others) >= 1
	return obs.OK(nt, classes...)
}

// c15Mutate changes exactly one ingested leaf value of record MutRec; ok=false when no sound mutation exists.
func c15Mutate(c c15Case) ([]gen.Rec, bool) {
	recs := make([]gen.Rec, len(c.Recs))
	for i, r := range c.Recs {
		cp := gen.Rec{Vals: append([]string{}, r.Vals...), Dup: r.Dup}
		for _, s := range r.Subs {
			cp.Subs = append(cp.Subs, append([]string{}, s...))
		}
		recs[i] = cp
	}
	r := &recs[c.MutRec]
	change := func(v string, width int) (string, bool) {
		rs := []rune(v)
		if width > 0 && len(rs) >= width {
			if len(rs) == 0 {
				return v, false
			}
			if rs[len(rs)-1] == 'q' {
				rs[len(rs)-1] = 'p'
			} else {
				rs[len(rs)-1] = 'q'
			}
			return string(rs), true
		}
		return v + "q", true
	}
	if c.MutCol < c.Shape.NCols {
		j := c.MutCol
		if j == c.Shape.IntCol {
			return nil, false // keeps the cast outcome out of the picture
		}
		if j == 0 && c.Shape.Filter {
			return nil, false
		}
		w := 0
		if len(c.Shape.Widths) > j {
			w = c.Shape.Widths[j]
		}
		nv, ok := change(r.Vals[j], w)
		if !ok {
			return nil, false
		}
		r.Vals[j] = nv
	} else {
		if len(r.Subs) == 0 {
			return nil, false
		}
		k := c.MutCol - c.Shape.NCols
		s := r.Subs[c.MutSub%len(r.Subs)]
		w := 0
		if len(c.Shape.SubW) > k {
			w = c.Shape.SubW[k]
		}
		nv, ok := change(s[k], w)
		if !ok {
			return nil, false
		}
		s[k] = nv
	}
	// the rendered record must really differ (fixed-width padding can hide a change)
	_, a, _ := c.Shape.RenderParts(c.Recs)
	_, b, _ := c.Shape.RenderParts(recs)
	if a[c.MutRec] == b[c.MutRec] {
		return nil, false
	}
	return recs, true
}

func TestC15(t *testing.T) {
	obs.Run(t, "C15", genC15, checkC15)
}
