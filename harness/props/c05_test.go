package props

// C05 — Hierarchical segment/record structure is matched greedily and completely.
//
// Reference model (model.Greedy, the recursive definition of the documented greedy matcher) versus the
// real edi / csv2 / fixedlength2 readers driven through the full stack (NewSchema, Transform.Read,
// RawRecord). Every input unit carries a unique id, so "exactly the child instances that belong to
// it" and "no unit dropped or consumed twice" are observable in the delivered target trees.
//
//	TestC05      random hierarchy x near-valid unit sequence x rendering variant
//	TestC05Enum  small-scope enumeration: for a drawn hierarchy ALL unit sequences up to MaxLen over
//	             its alphabet plus the undeclared X (thorough tier)

import (
	"bytes"
	"encoding/json"
	"fmt"
	"io"
	"strings"
	"testing"

	"github.com/jf-tech/omniparser"
	"github.com/jf-tech/omniparser/errs"
	"github.com/jf-tech/omniparser/extensions/omniv21/fileformat/edi"
	"github.com/jf-tech/omniparser/idr"
	"github.com/jf-tech/omniparser/transformctx"
	"pgregory.net/rapid"

	"verifharness/gen"
	"verifharness/model"
	"verifharness/obs"
	"verifharness/run"
)

const c05KnownUnterminated = "c05-edi-unterminated-final-segment-dropped"

// c05Case is one case of either test. EnumLen == 0: the single unit sequence Units. EnumLen > 0
// (TestC05Enum): Units is unused and the check enumerates every unit sequence up to that length
// over the hierarchy's alphabet plus the undeclared X. One struct and one check function serve both
// tests so that a saved failing case replays through either entry point.
type c05Case struct {
	H       gen.Hierarchy `json:"h"`
	Units   []model.HUnit `json:"units,omitempty"`
	R       gen.HRender   `json:"render"`
	EnumLen int           `json:"enum_len,omitempty"`
}

var (
	c05Formats = []string{"edi", "edi", "csv2", "fixedlength2"}
	c05Tags    = []string{"A", "B", "C", "D"}
	c05EnumTag = []string{"A", "B", "C"}
)

func genC05(t *rapid.T) c05Case {
	c := c05Case{}
	format := rapid.SampledFrom(c05Formats).Draw(t, "format")
	if rapid.IntRange(0, 15).Draw(t, "deepChain") == 7 {
		c.H = gen.DrawDeepHierarchy(t, format)
		c.Units = gen.DrawDeepUnits(t, c.H)
		c.R = gen.DrawHRender(t, format, len(c.Units))
		return c
	}
	if rapid.IntRange(0, 9).Draw(t, "longInput") == 0 {
		// several thousand bytes of input: line buffers roll over while records are being assembled (half of these cases
		// are fixedlength2, whose reader keeps references into its read buffer while an envelope is incomplete)
		if rapid.Bool().Draw(t, "longFixedLength2") {
			format = "fixedlength2"
		}
		c.H = gen.DrawHierarchy(t, format, gen.HierOpts{Tags: c05Tags})
		c.Units = gen.DrawLongUnits(t, c.H, c05Tags)
		c.R = gen.DrawHRender(t, format, 12)
		c.R.CycleBlank = true
		if c.R.Blank == nil && rapid.Bool().Draw(t, "longBlanks") {
			// empty lines between the lines of multi-line records matter most when buffers roll over
			c.R.Blank = rapid.SliceOfN(rapid.IntRange(0, 1), 5, 13).Draw(t, "longBlankPattern")
		}
		return c
	}
	c.H = gen.DrawHierarchy(t, format, gen.HierOpts{Tags: c05Tags})
	c.Units = gen.DrawUnits(t, c.H, c05Tags)
	c.R = gen.DrawHRender(t, format, len(c.Units))
	return c
}

func genC05Enum(t *rapid.T) c05Case {
	c := c05Case{EnumLen: 6}
	format := rapid.SampledFrom(c05Formats).Draw(t, "format")
	// sequences are at most EnumLen long: smaller hierarchies with fewer minimums, so that complete
	// instances (EOF outcomes, delivered targets) fit into the enumerated scope
	c.H = gen.DrawHierarchy(t, format, gen.HierOpts{Tags: c05EnumTag, MaxDecls: 5, Mins: []int{0, 0, 0, 1, 1, 2}})
	c.R = gen.DrawHRender(t, format, 0)
	c.R.Blank = nil
	// the unterminated final unit is part of the enumeration for the line formats only: for EDI it is
	// a separate, known disagreement that would mask the whole enumeration of a hierarchy
	c.R.NoFinalTerm = format != "edi" && rapid.IntRange(0, 3).Draw(t, "enumNoFinalTerm") == 0
	return c
}

// c05Obs is what the real stack delivered.
type c05Obs struct {
	Trees []string // delivered target trees (walked from RawRecord().Raw()), in order
	JSONs []string // canonical JSON of each Read result (FINAL_OUTPUT = copy)
	Term  string   // eof | fatal | record-failure | no-terminal
	Err   string
}

func c05Snap(n *idr.Node) *model.HNode {
	out := &model.HNode{Name: n.Data}
	for c := n.FirstChild; c != nil; c = c.NextSibling {
		switch c.Type {
		case idr.TextNode:
			s := c.Data
			if out.Text != nil {
				s = *out.Text + s
			}
			out.Text = &s
		default:
			out.Kids = append(out.Kids, c05Snap(c))
		}
	}
	return out
}

func c05Observe(sch omniparser.Schema, input []byte, maxRecords int) c05Obs {
	return c05ObserveFrom(sch, bytes.NewReader(input), maxRecords)
}

func c05ObserveFrom(sch omniparser.Schema, input io.Reader, maxRecords int) c05Obs {
	o := c05Obs{}
	tr, err := sch.NewTransform("c05", input, &transformctx.Ctx{})
	if err != nil {
		o.Term, o.Err = "fatal", "NewTransform: "+err.Error()
		return o
	}
	for i := 0; i <= maxRecords+1; i++ {
		b, err := tr.Read()
		switch {
		case err == nil:
			rr, rerr := tr.RawRecord()
			if rerr != nil {
				o.Term, o.Err = "record-failure", "RawRecord after successful Read: "+rerr.Error()
				return o
			}
			n, ok := rr.Raw().(*idr.Node)
			if !ok {
				o.Term, o.Err = "record-failure", "raw record is not an *idr.Node"
				return o
			}
			o.Trees = append(o.Trees, c05Snap(n).String())
			js, cerr := run.Canon(b)
			if cerr != nil {
				js = "INVALID-JSON:" + string(b)
			}
			o.JSONs = append(o.JSONs, js)
		case err == io.EOF:
			o.Term = "eof"
			return o
		case errs.IsErrTransformFailed(err):
			o.Term, o.Err = "record-failure", err.Error()
			return o
		default:
			o.Term, o.Err = "fatal", err.Error()
			return o
		}
	}
	o.Term = "no-terminal"
	return o
}

// c05J2 renders a model tree the way the documented `copy` function presents a node: a node with
// text only is a string; several element children all of one name are an array; otherwise an object in
// which repeated names are collected into arrays.
func c05J2(n *model.HNode) interface{} {
	if n.Text != nil && len(n.Kids) == 0 {
		return *n.Text
	}
	same := len(n.Kids) > 1
	for _, k := range n.Kids {
		if k.Name != n.Kids[0].Name {
			same = false
		}
	}
	if same {
		arr := []interface{}{}
		for _, k := range n.Kids {
			arr = append(arr, c05J2(k))
		}
		return arr
	}
	o := map[string]interface{}{}
	isArr := map[string]bool{}
	for _, k := range n.Kids {
		v := c05J2(k)
		if old, ok := o[k.Name]; ok {
			if isArr[k.Name] {
				o[k.Name] = append(old.([]interface{}), v)
			} else {
				o[k.Name] = []interface{}{old, v}
				isArr[k.Name] = true
			}
		} else {
			o[k.Name] = v
		}
	}
	return o
}

// c05Diff compares prediction and observation; "" when equal.
func c05Diff(exp model.HResult, got c05Obs) string {
	wantTerm := "eof"
	if exp.Fatal {
		wantTerm = "fatal"
	}
	n := len(exp.Targets)
	if len(got.Trees) < n {
		n = len(got.Trees)
	}
	for i := 0; i < n; i++ {
		if w := exp.Targets[i].String(); w != got.Trees[i] {
			return fmt.Sprintf("target instance %d differs:\n  want %s\n  got  %s", i, w, got.Trees[i])
		}
	}
	if len(exp.Targets) != len(got.Trees) {
		return fmt.Sprintf("number of delivered target instances: want %d, got %d (then %s %s)", len(exp.Targets), len(got.Trees), got.Term, got.Err)
	}
	if wantTerm != got.Term {
		return fmt.Sprintf("terminal result: want %s (%s), got %s %s", wantTerm, exp.Reason, got.Term, got.Err)
	}
	for i := 0; i < n; i++ {
		wb, _ := json.Marshal(c05J2(exp.Targets[i]))
		w, _ := run.Canon(wb)
		if w != got.JSONs[i] {
			return fmt.Sprintf("Read output %d (FINAL_OUTPUT = copy of the target) differs:\n  want %s\n  got  %s", i, w, got.JSONs[i])
		}
	}
	return ""
}

// c05Tokens reads the input with the exported non-validating EDI reader and returns "name*id" per
// segment, or an error text.
func c05Tokens(fd map[string]interface{}, input []byte) ([]string, string) {
	b, _ := json.Marshal(fd)
	var decl edi.FileDecl
	if err := json.Unmarshal(b, &decl); err != nil {
		return nil, "file declaration does not unmarshal: " + err.Error()
	}
	r := edi.NewNonValidatingReader(bytes.NewReader(input), &decl)
	var out []string
	limit := 64 + len(input) // (at most one segment per byte)
	for i := 0; i < limit; i++ {
		seg, err := r.Read()
		if err == io.EOF {
			return out, ""
		}
		if err != nil {
			return out, err.Error()
		}
		var parts []string
		for _, e := range seg.Elems {
			parts = append(parts, string(e.Data))
		}
		if len(parts) == 0 || parts[0] != seg.Name {
			return out, fmt.Sprintf("segment %d: Name %q is not element 0 of %q", i, seg.Name, parts)
		}
		out = append(out, strings.Join(parts, "*"))
	}
	return out, "no EOF after as many segments as the input has bytes"
}

// c05One judges one (hierarchy, units, rendering) combination. known is non-empty when the only
// disagreement is the open known finding.
func c05One(sch omniparser.Schema, h gen.Hierarchy, units []model.HUnit, r gen.HRender) (exp model.HResult, violation, known string) {
	input := h.RenderUnits(units, r)
	exp = model.Greedy(h.Top, units, h.HOpts())
	if !exp.Fatal {
		for i, k := range exp.Consumed {
			if k != 1 {
				panic(fmt.Sprintf("harness: model reports EOF but consumed unit %d %d times", i, k))
			}
		}
	}
	got := c05Observe(sch, input, len(units))
	describe := func() string {
		return fmt.Sprintf("format=%s\nfile_declaration=%s\nunits=%s\ninput=%q", h.Format, c05JSON(h.FileDecl(r)), c05UnitsString(units), input)
	}
	dropLast := h.Format == "edi" && r.NoFinalTerm && len(units) > 0
	if d := c05Diff(exp, got); d != "" {
		if dropLast && obs.KnownOpen(c05KnownUnterminated) {
			// the known shape: everything is exactly as if the unterminated final segment were absent
			exp2 := model.Greedy(h.Top, units[:len(units)-1], h.HOpts())
			if c05Diff(exp2, got) == "" {
				return exp, "", c05KnownUnterminated
			}
		}
		return exp, d + "\n" + describe(), ""
	}
	if h.Format == "edi" {
		var want []string
		for _, u := range units {
			want = append(want, h.UnitText(u))
		}
		toks, terr := c05Tokens(h.FileDecl(r), input)
		if terr != "" || strings.Join(toks, "|") != strings.Join(want, "|") {
			if dropLast && terr == "" && strings.Join(toks, "|") == strings.Join(want[:len(want)-1], "|") && obs.KnownOpen(c05KnownUnterminated) {
				return exp, "", c05KnownUnterminated
			}
			return exp, fmt.Sprintf("edi.NewNonValidatingReader does not return exactly the input segments:\n  want %q\n  got  %q %s\n%s", want, toks, terr, describe()), ""
		}
	}
	return exp, "", ""
}

func c05JSON(v interface{}) string {
	b, _ := json.Marshal(v)
	return string(b)
}

func c05UnitsString(units []model.HUnit) string {
	var parts []string
	for _, u := range units {
		parts = append(parts, u.Tag)
	}
	return "[" + strings.Join(parts, " ") + "]"
}

// c05HierClasses labels the structural classes of a hierarchy.
func c05HierClasses(h gen.Hierarchy) []string {
	cl := []string{"format=" + h.Format}
	seen := map[string]bool{}
	add := func(s string) {
		if !seen[s] {
			seen[s] = true
			cl = append(cl, s)
		}
	}
	names := map[string]int{}
	maxDepth := 0
	h.Walk(func(d *model.HDecl, depth int, underGroup bool) {
		if depth > maxDepth {
			maxDepth = depth
		}
		if d.Group {
			add("has-group")
			if len(d.Children) > 0 && d.Children[0].Group {
				add("group-first-member-is-group")
			}
		} else if d.Rows > 0 {
			add("rows-based")
			if d.Rows > 1 {
				add("rows=2")
			}
		} else {
			names[d.Tag]++
			if d.Footer != "" {
				add("header-footer")
			}
		}
		if d.Min == nil || d.Max == nil {
			add("default-min-or-max")
		}
		if d.Max != nil && *d.Max < 0 {
			add("max-unbounded")
		}
		if d.Min != nil && *d.Min == 2 {
			add("min=2")
		}
		if d.Target {
			add(fmt.Sprintf("target-depth=%d", depth))
			if underGroup {
				add("target-in-group")
			}
			if d.Group {
				add("target-is-group")
			}
			if len(d.Children) > 0 {
				add("target-has-children")
			}
		}
	})
	for _, n := range names {
		if n > 1 {
			add("repeated-name")
		}
	}
	add(fmt.Sprintf("depth=%d", maxDepth))
	if maxDepth >= 7 {
		add("deep-chain")
	}
	if maxDepth >= 10 {
		add("nesting>=10") // the readers' frame stacks start with capacity 10
	}
	if h.ImplicitTarget {
		add("implicit-target")
	}
	return cl
}

func checkC05(c c05Case) obs.Result {
	if c.EnumLen != 0 {
		return c05CheckEnum(c)
	}
	sch, err := run.NewSchema(c.H.Schema(c.R))
	if err != nil {
		return obs.Violationf("generated schema rejected: %v\n%s", err, c.H.Schema(c.R))
	}
	exp, violation, known := c05One(sch, c.H, c.Units, c.R)
	if violation != "" {
		return obs.Violationf("%s", violation)
	}
	// the verdict of the matcher (what is delivered, how the input ends) must not depend on what happens to be buffered:
	// the same bytes one at a time, with the final byte returned together with io.EOF
	if known == "" {
		input := c.H.RenderUnits(c.Units, c.R)
		whole := c05Observe(sch, input, len(c.Units))
		bytewise := c05ObserveFrom(sch, run.NewChunkReader(input, run.Schedule{Sizes: []int{1}, EOFWithData: true}), len(c.Units))
		if fmt.Sprintf("%+v", whole) != fmt.Sprintf("%+v", bytewise) {
			return obs.Violationf("delivered byte by byte the same input gives another outcome:\n  whole:    %+v\n  bytewise: %+v\nformat=%s\nfile_declaration=%s\ninput=%q",
				whole, bytewise, c.H.Format, c05JSON(c.H.FileDecl(c.R)), input)
		}
	}
	cl := c05HierClasses(c.H)
	if exp.Fatal {
		cl = append(cl, "outcome=fatal")
	} else {
		cl = append(cl, "outcome=eof")
	}
	switch n := len(exp.Targets); {
	case n == 0:
		cl = append(cl, "targets=0")
	case n == 1:
		cl = append(cl, "targets=1")
	default:
		cl = append(cl, "targets>=2")
	}
	if len(c.Units) == 0 {
		cl = append(cl, "empty-input")
	}
	if len(c.Units) > 100 {
		cl = append(cl, "long-input")
	}
	if c.R.NoFinalTerm {
		cl = append(cl, "no-final-terminator")
	}
	for _, b := range c.R.Blank {
		if b > 0 {
			cl = append(cl, "blank-lines")
			break
		}
	}
	for _, u := range c.Units {
		if u.Tag == "X" {
			cl = append(cl, "undeclared-unit")
			break
		}
	}
	if exp.Rounds > 1 {
		cl = append(cl, "edi-root-repeats")
	}
	if exp.MoveOns > 0 {
		cl = append(cl, "move-on")
	}
	if exp.Repeats > 0 {
		cl = append(cl, "repeat")
	}
	if known != "" {
		return obs.Result{Known: known, Classes: cl}
	}
	return obs.OK(exp.MoveOns > 0 && exp.Repeats > 0, cl...)
}

func c05CheckEnum(c c05Case) obs.Result {
	if c.EnumLen < 0 || c.EnumLen > 7 {
		return obs.Result{Excluded: "enumeration bound out of range"}
	}
	sch, err := run.NewSchema(c.H.Schema(c.R))
	if err != nil {
		return obs.Violationf("generated schema rejected: %v\n%s", err, c.H.Schema(c.R))
	}
	alpha := append(c.H.Alphabet(), "X")
	total, nonTrivial, fatal, knownHits := 0, 0, 0, 0
	seq := make([]string, 0, c.EnumLen)
	var violation string
	var rec func()
	rec = func() {
		if violation != "" {
			return
		}
		exp, v, known := c05One(sch, c.H, gen.HUnitsOf(seq), c.R)
		total++
		if v != "" {
			violation = v
			return
		}
		if known != "" {
			knownHits++
		}
		if exp.Fatal {
			fatal++
		}
		if exp.MoveOns > 0 && exp.Repeats > 0 {
			nonTrivial++
		}
		if len(seq) == c.EnumLen {
			return
		}
		for _, a := range alpha {
			seq = append(seq, a)
			rec()
			seq = seq[:len(seq)-1]
		}
	}
	rec()
	obs.Count("c05enum_sequences", total)
	obs.Count("c05enum_sequences_nontrivial", nonTrivial)
	obs.Count("c05enum_sequences_fatal", fatal)
	if violation != "" {
		return obs.Violationf("enumeration of all unit sequences up to length %d over %v: %s", c.EnumLen, alpha, violation)
	}
	cl := append(c05HierClasses(c.H), fmt.Sprintf("alphabet=%d", len(alpha)))
	if c.R.NoFinalTerm {
		cl = append(cl, "no-final-terminator")
	}
	if knownHits > 0 {
		return obs.Result{Known: c05KnownUnterminated, Classes: cl}
	}
	return obs.OK(nonTrivial > 0, cl...)
}

func TestC05(t *testing.T) {
	obs.Run(t, "C05", genC05, checkC05)
}

func TestC05Enum(t *testing.T) {
	obs.Run(t, "C05", genC05Enum, checkC05)
}
