package props

// C10 — Records are transformed independently; a failing record affects only itself (metamorphic).

import (
	"bytes"
	"fmt"
	"testing"

	"pgregory.net/rapid"

	"verifharness/gen"
	"verifharness/obs"
	"verifharness/run"
)

type c10Case struct {
	Shape gen.Shape `json:"shape"`
	Recs  []gen.Rec `json:"recs"`
	Split int       `json:"split"` // A = Recs[:Split], B = Recs[Split:]
	Perm  []int     `json:"perm"`  // permutation of indices
	// replacement: record ReplaceAt is replaced by Bad
	ReplaceAt int     `json:"replace_at"`
	BadKind   int     `json:"bad_kind"` // 0 none, 1 type cast, 2 two xpath matches, 3 custom function error, 4 malformed row (old csv: a reader-level per-record failure)
	Bad       gen.Rec `json:"bad"`
}

func genC10(t *rapid.T) c10Case {
	c := c10Case{}
	c.Shape = gen.DrawShape(t, gen.ShapeOpts{})
	c.Recs = gen.DrawRecs(t, c.Shape, "r", 0, 8, gen.ValueOpts{})
	// near-duplicates next to each other: a copy of a record that differs in ONE value only (a memo keyed by less than
	// the whole record answers the second from the first)
	if len(c.Recs) > 0 && len(c.Recs) < 8 && rapid.IntRange(0, 2).Draw(t, "nearDup") == 0 {
		i := rapid.IntRange(0, len(c.Recs)-1).Draw(t, "nearDupOf")
		src := c.Recs[i]
		cp := gen.Rec{Vals: append([]string{}, src.Vals...), Dup: src.Dup}
		for _, sub := range src.Subs {
			cp.Subs = append(cp.Subs, append([]string{}, sub...))
		}
		col := len(cp.Vals) - 1
		if col != c.Shape.IntCol && !(col == 0 && c.Shape.Filter) {
			other := gen.DrawRec(t, c.Shape, "nearDupVal", 0, gen.ValueOpts{})
			if len(other.Vals) == len(cp.Vals) && other.Vals[col] != cp.Vals[col] {
				cp.Vals[col] = other.Vals[col]
				c.Recs = append(c.Recs[:i+1], append([]gen.Rec{cp}, c.Recs[i+1:]...)...)
			}
		}
	}
	n := len(c.Recs)
	c.Split = rapid.IntRange(0, n).Draw(t, "split")
	c.Perm = rapid.Permutation(indices(n)).Draw(t, "perm")
	if n > 0 {
		c.ReplaceAt = rapid.IntRange(0, n-1).Draw(t, "replaceAt")
		kinds := []int{}
		if c.Shape.IntCol >= 0 {
			kinds = append(kinds, 1)
		}
		if c.Shape.Format == "xml" {
			kinds = append(kinds, 2)
		}
		if c.Shape.Xform == 2 && c.Shape.IntCol != 0 && (len(c.Shape.Widths) == 0 || c.Shape.Widths[0] >= 4) {
			kinds = append(kinds, 3)
		}
		if c.Shape.Format == "csv" && !c.Shape.ReplaceQuotes {
			kinds = append(kinds, 4, 4)
		}
		if len(kinds) > 0 {
			c.BadKind = rapid.SampledFrom(kinds).Draw(t, "badKind")
			c.Bad = gen.DrawRec(t, c.Shape, "bad", 0, gen.ValueOpts{})
			switch c.BadKind {
			case 1:
				c.Bad.Vals[c.Shape.IntCol] = "x"
			case 2:
				c.Bad.Dup = true
			case 3:
				c.Bad.Vals[0] = gen.BoomToken
			case 4:
				c.Bad.RawLine = "ab\"cd" + c.Shape.Delim + "x" // a bare quote in an unquoted field
			}
		}
	}
	return c
}

func indices(n int) []int {
	out := make([]int, n)
	for i := range out {
		out[i] = i
	}
	return out
}

func checkC10(c c10Case) obs.Result {
	sch, err := run.NewSchema(c.Shape.Schema())
	if err != nil {
		return obs.Violationf("generated schema rejected: %v", err)
	}
	out := func(recs []gen.Rec) ([]run.Step, run.Step, error) {
		in := c.Shape.Render(recs)
		steps, err := run.Transcript(sch, bytes.NewReader(in), run.Opts{InputLen: len(in)})
		if err != nil {
			return nil, run.Step{}, fmt.Errorf("%v on input %q", err, in)
		}
		return steps[:len(steps)-1], steps[len(steps)-1], nil
	}
	classes := []string{"format=" + c.Shape.Format, fmt.Sprintf("xform=%d", c.Shape.Xform)}
	for _, r := range c.Recs {
		if r.BlankA && c.Shape.FLSpaceMark {
			classes = append(classes, "first-row-all-blank")
			break
		}
	}
	whole, term, err := out(c.Recs)
	if err != nil {
		return obs.Result{Excluded: "no terminal result (C03's business)"}
	}
	// singles: the strongest form of the concatenation law
	var concat []run.Step
	per := make([][]run.Step, len(c.Recs))
	for i, r := range c.Recs {
		o, tm, err := out([]gen.Rec{r})
		if err != nil {
			return obs.Result{Excluded: "no terminal result (C03's business)"}
		}
		if tm.ErrClass != "eof" {
			return obs.Violationf("a single well-formed record does not end with EOF: %+v (record %+v, input %q)", tm, r, c.Shape.Render([]gen.Rec{r}))
		}
		per[i] = o
		concat = append(concat, o...)
	}
	if term.ErrClass != "eof" {
		return obs.Violationf("each record alone ends with EOF but the sequence ends with %+v\ninput %q", term, c.Shape.Render(c.Recs))
	}
	if d := run.Diff(concat, whole, run.Step.Key); d != "" {
		return obs.Violationf("out(r1..rn) != out(r1)++...++out(rn) (A = concatenation of single-record runs, B = whole input):\n%s\ninput %q", d, c.Shape.Render(c.Recs))
	}
	nonTrivial := false
	// explicit concatenation A ++ B
	a, _, errA := out(c.Recs[:c.Split])
	b, _, errB := out(c.Recs[c.Split:])
	if errA != nil || errB != nil {
		return obs.Result{Excluded: "no terminal result (C03's business)"}
	}
	if d := run.Diff(append(append([]run.Step{}, a...), b...), whole, run.Step.Key); d != "" {
		return obs.Violationf("out(A++B) != out(A)++out(B) with split %d:\n%s\ninput %q", c.Split, d, c.Shape.Render(c.Recs))
	}
	if c.Split > 0 && c.Split < len(c.Recs) && len(c.Shape.Render(c.Recs[:1])) != len(c.Shape.Render(c.Recs[len(c.Recs)-1:])) {
		nonTrivial = true
		classes = append(classes, "split-different-sizes")
	}
	// permutation
	permuted := make([]gen.Rec, len(c.Recs))
	var expect []run.Step
	moved := false
	for i, j := range c.Perm {
		permuted[i] = c.Recs[j]
		expect = append(expect, per[j]...)
		if i != j {
			moved = true
		}
	}
	pw, _, err := out(permuted)
	if err != nil {
		return obs.Result{Excluded: "no terminal result (C03's business)"}
	}
	if d := run.Diff(expect, pw, run.Step.Key); d != "" {
		return obs.Violationf("out(perm(R)) != perm(out(R)) for perm %v:\n%s\ninput %q", c.Perm, d, c.Shape.Render(permuted))
	}
	if moved {
		nonTrivial = true
		classes = append(classes, "permuted")
	}
	// replacement by a failing record
	if c.BadKind != 0 && len(c.Recs) > 0 {
		repl := append([]gen.Rec{}, c.Recs...)
		repl[c.ReplaceAt] = c.Bad
		rw, rterm, err := out(repl)
		if err != nil {
			return obs.Result{Excluded: "no terminal result (C03's business)"}
		}
		var exp []run.Step
		for i := range c.Recs {
			if i == c.ReplaceAt {
				exp = append(exp, run.Step{Kind: "fail", ErrClass: "transform-failed"})
			} else {
				exp = append(exp, per[i]...)
			}
		}
		if rterm.ErrClass != "eof" {
			return obs.Violationf("replacing record %d by a failing one (kind %d) changes the terminal result to %+v\ninput %q", c.ReplaceAt, c.BadKind, rterm, c.Shape.Render(repl))
		}
		if d := run.Diff(exp, rw, run.Step.Key); d != "" {
			return obs.Violationf("replacing record %d by a failing one (kind %d) must change exactly that position into a per-record failure (A = expected, B = got):\n%s\ninput %q", c.ReplaceAt, c.BadKind, d, c.Shape.Render(repl))
		}
		classes = append(classes, fmt.Sprintf("bad-kind=%d", c.BadKind))
		if c.ReplaceAt < len(c.Recs)-1 {
			nonTrivial = true
			classes = append(classes, "bad-not-last")
		}
	}
	return obs.OK(nonTrivial, classes...)
}

func TestC10(t *testing.T) {
	obs.Run(t, "C10", genC10, checkC10)
}
