package props

// C19 — Date-time functions preserve the instant and invert each other.
//
// Oracle: Go's time arithmetic on the generated instant; input strings are rendered by an own
// formatter (fmt.Sprintf), outputs are parsed by an own RFC3339 reader. See DESIGN.md §5 C19.

import (
	"fmt"
	"os"
	"path/filepath"
	"sort"
	"strconv"
	"strings"
	"sync"
	"testing"
	"time"

	"github.com/jf-tech/omniparser/customfuncs"
	"pgregory.net/rapid"

	"verifharness/obs"
)

var (
	zonesOnce sync.Once
	zoneList  []string
)

func allZones() []string {
	zonesOnce.Do(func() {
		root := "/usr/share/zoneinfo"
		_ = filepath.Walk(root, func(p string, info os.FileInfo, err error) error {
			if err != nil || info.IsDir() {
				return nil
			}
			rel := strings.TrimPrefix(p, root+"/")
			if strings.HasPrefix(rel, "posix") || strings.HasPrefix(rel, "right") || !strings.Contains(rel, "/") ||
				strings.HasPrefix(rel, "Etc/") {
				return nil
			}
			// names that contain '-' or '+' would be ambiguous in the "-Area/City" suffix form
			b, _ := os.ReadFile(p)
			if len(b) > 4 && string(b[:4]) == "TZif" {
				if _, err := time.LoadLocation(rel); err == nil {
					// SmartParse only knows the names in its own table; probe it once.
					if _, hasTZ, err := smartProbe(rel); err == nil && hasTZ {
						zoneList = append(zoneList, rel)
					}
				}
			}
			return nil
		})
		sort.Strings(zoneList)
		if len(zoneList) == 0 {
			zoneList = []string{"UTC"}
		}
	})
	return zoneList
}

// smartProbe asks the function under test whether it recognises a zone-name suffix at all (names
// unknown to its table are outside "every IANA zone the parser advertises").
func smartProbe(zone string) (string, bool, error) {
	out, err := customfuncs.DateTimeToRFC3339(nil, "2001-02-03T04:05:06-"+zone, "", "")
	if err != nil {
		return "", false, err
	}
	return out, !strings.HasSuffix(out, "04:05:06"), nil
}

type c19Case struct {
	Unix   int64  `json:"unix"`  // the instant, whole seconds
	Nanos  int    `json:"nanos"` // sub-second part
	Src    string `json:"src"`   // "": input carries no zone; "Z"; "+hh:mm" fixed offset; IANA name
	SrcFrm int    `json:"src_form"`
	// 0 none, 1 Z, 2 ±hh, 3 ±hhmm, 4 ±hh:mm, 5 -Area/City ; for 2..4 Src is the offset in minutes as decimal
	OffSpace bool   `json:"off_space"` // " +hh" instead of "+hh"
	FromTZ   string `json:"from_tz"`
	ToTZ     string `json:"to_tz"`
	DateFmt  int    `json:"date_fmt"`
	Delim    int    `json:"delim"`
	TimeFmt  int    `json:"time_fmt"` // 0 none(date only) 1 hh:mm:ss 2 hh:mm:ss.f 3 hh:mm 4 hhmmss 5 hhmm
	Frac     int    `json:"frac"`     // fraction digits for TimeFmt 2
	AMPM     int    `json:"ampm"`     // 0 none 1 " PM" 2 "PM"
	Func     int    `json:"func"`     // 0 toRFC3339 1 layoutToRFC3339 2 toEpoch 3 epochTo 4 roundtrip 5 empty 6 invalid
	Layout   int    `json:"layout"`
	Unit     string `json:"unit"`
	// Decoy: before the call under test the same function is called with the same text but other flags / zones
	// (its result is ignored): a call's result is a function of its own arguments only.
	Decoy bool `json:"decoy,omitempty"`
	// EmptyLayout (Func 1 only): dateTimeLayoutToRFC3339 is called with an empty layout - the smart parser reads the text,
	// exactly as in dateTimeToRFC3339, and the layoutTZ flag (EmptyLayoutFlag: "", "true" or "false") describes nothing.
	EmptyLayout     bool   `json:"empty_layout,omitempty"`
	EmptyLayoutFlag string `json:"empty_layout_flag,omitempty"`
	Mut   int  `json:"mut"`
	MutPos   int    `json:"mut_pos"`
}

var c19DateFmts = []func(y, m, d int) string{
	func(y, m, d int) string { return fmt.Sprintf("%04d-%02d-%02d", y, m, d) },
	func(y, m, d int) string { return fmt.Sprintf("%02d-%02d-%04d", m, d, y) },
	func(y, m, d int) string { return fmt.Sprintf("%04d/%02d/%02d", y, m, d) },
	func(y, m, d int) string { return fmt.Sprintf("%02d/%02d/%04d", m, d, y) },
	func(y, m, d int) string { return fmt.Sprintf("%04d%02d%02d", y, m, d) },
}
var c19Delims = []string{"T", " ", ""}

// explicit layouts for dateTimeLayoutToRFC3339: Go layout, whether it carries a zone, own renderer.
type c19Layout struct {
	layout string
	hasTZ  bool
	secs   bool
	render func(y, mo, d, h, mi, s int, offMin int) string
}

var c19Months = []string{"Jan", "Feb", "Mar", "Apr", "May", "Jun", "Jul", "Aug", "Sep", "Oct", "Nov", "Dec"}

func offStr(offMin int, colon bool) string {
	sign := "+"
	if offMin < 0 {
		sign = "-"
		offMin = -offMin
	}
	if colon {
		return fmt.Sprintf("%s%02d:%02d", sign, offMin/60, offMin%60)
	}
	return fmt.Sprintf("%s%02d%02d", sign, offMin/60, offMin%60)
}

var c19Layouts = []c19Layout{
	{"2006-01-02 15:04:05", false, true, func(y, mo, d, h, mi, s, o int) string {
		return fmt.Sprintf("%04d-%02d-%02d %02d:%02d:%02d", y, mo, d, h, mi, s)
	}},
	{"02/01/2006 15:04", false, false, func(y, mo, d, h, mi, s, o int) string {
		return fmt.Sprintf("%02d/%02d/%04d %02d:%02d", d, mo, y, h, mi)
	}},
	{"Jan 2, 2006 3:04:05PM", false, true, func(y, mo, d, h, mi, s, o int) string {
		ap := "AM"
		hh := h
		if h >= 12 {
			ap = "PM"
			hh = h - 12
		}
		if hh == 0 {
			hh = 12
		}
		return fmt.Sprintf("%s %d, %04d %d:%02d:%02d%s", c19Months[mo-1], d, y, hh, mi, s, ap)
	}},
	{"20060102T150405Z0700", true, true, func(y, mo, d, h, mi, s, o int) string {
		z := offStr(o, false)
		if o == 0 {
			z = "Z"
		}
		return fmt.Sprintf("%04d%02d%02dT%02d%02d%02d%s", y, mo, d, h, mi, s, z)
	}},
	{"2006-01-02T15:04:05-07:00", true, true, func(y, mo, d, h, mi, s, o int) string {
		return fmt.Sprintf("%04d-%02d-%02dT%02d:%02d:%02d%s", y, mo, d, h, mi, s, offStr(o, true))
	}},
	{"02.01.2006 15.04.05 -0700", true, true, func(y, mo, d, h, mi, s, o int) string {
		return fmt.Sprintf("%02d.%02d.%04d %02d.%02d.%02d %s", d, mo, y, h, mi, s, offStr(o, false))
	}},
	{"2006-002 15:04:05", false, true, nil}, // day-of-year, filled below
}

func init() {
	c19Layouts[6].render = func(y, mo, d, h, mi, s, o int) string {
		yd := time.Date(y, time.Month(mo), d, 0, 0, 0, 0, time.UTC).YearDay()
		return fmt.Sprintf("%04d-%03d %02d:%02d:%02d", y, yd, h, mi, s)
	}
}

// zoneTransitions returns the instants (unix seconds) in the given UTC year at which the zone's
// offset changes.
func zoneTransitions(loc *time.Location, year int) []int64 {
	var out []int64
	start := time.Date(year, 1, 1, 0, 0, 0, 0, time.UTC).Unix()
	end := time.Date(year+1, 1, 1, 0, 0, 0, 0, time.UTC).Unix()
	off := func(u int64) int { _, o := time.Unix(u, 0).In(loc).Zone(); return o }
	prev := start
	po := off(prev)
	for u := start + 86400; u <= end; u += 86400 {
		o := off(u)
		if o != po {
			lo, hi := prev, u
			for hi-lo > 1 {
				mid := (lo + hi) / 2
				if off(mid) == po {
					lo = mid
				} else {
					hi = mid
				}
			}
			out = append(out, hi)
		}
		prev, po = u, o
	}
	return out
}

var c19SpecialYears = []int{1, 2, 1677, 1678, 1679, 1883, 1900, 1901, 1969, 1970, 1971, 2037, 2038, 2039, 2261, 2262, 2263, 9998, 9999}
var c19Offsets = []int{0, 60, -60, 330, 345, -210, 765, -720, 840, 525, -570, 1, -1, 59}

func genC19(t *rapid.T) c19Case {
	zs := allZones()
	c := c19Case{}
	// year mixture
	var year int
	switch rapid.IntRange(0, 9).Draw(t, "yearKind") {
	case 0, 1, 2, 3, 4:
		year = rapid.IntRange(1, 9999).Draw(t, "year")
	case 5, 6:
		year = rapid.SampledFrom(c19SpecialYears).Draw(t, "specialYear")
	default:
		year = rapid.IntRange(1950, 2060).Draw(t, "modernYear")
	}
	zone := rapid.SampledFrom(zs).Draw(t, "zone")
	loc, _ := time.LoadLocation(zone)
	var unix int64
	kind := rapid.IntRange(0, 9).Draw(t, "instKind")
	trs := []int64(nil)
	if kind <= 2 {
		trs = zoneTransitions(loc, year)
	}
	switch {
	case kind <= 2 && len(trs) > 0:
		tr := trs[rapid.IntRange(0, len(trs)-1).Draw(t, "tr")]
		unix = tr + int64(rapid.IntRange(-3*3600, 3*3600).Draw(t, "trDelta"))
	case kind == 3: // leap day / year ends
		md := rapid.SampledFrom([][2]int{{2, 28}, {2, 29}, {3, 1}, {12, 31}, {1, 1}}).Draw(t, "md")
		unix = time.Date(year, time.Month(md[0]), md[1], 0, 0, 0, 0, time.UTC).Unix() + int64(rapid.IntRange(0, 86399).Draw(t, "sod"))
	default:
		doy := rapid.IntRange(0, 364).Draw(t, "doy")
		unix = time.Date(year, 1, 1, 0, 0, 0, 0, time.UTC).Unix() + int64(doy)*86400 + int64(rapid.IntRange(0, 86399).Draw(t, "sod"))
	}
	// keep the wall clock inside years 1..9999 in every zone
	lo := time.Date(1, 1, 2, 0, 0, 0, 0, time.UTC).Unix()
	hi := time.Date(9999, 12, 30, 23, 59, 59, 0, time.UTC).Unix()
	if unix < lo {
		unix = lo
	}
	if unix > hi {
		unix = hi
	}
	c.Unix = unix
	edge := rapid.IntRange(0, 24).Draw(t, "edge")
	switch edge {
	case 0: // the very first instant of the range (Go's zero time)
		c.Unix = time.Date(1, 1, 1, 0, 0, 0, 0, time.UTC).Unix()
	case 1: // the very last second of the range
		c.Unix = time.Date(9999, 12, 31, 23, 59, 59, 0, time.UTC).Unix()
	}
	c.Decoy = rapid.IntRange(0, 3).Draw(t, "decoy") == 0
	c.Func = rapid.SampledFrom([]int{0, 0, 0, 1, 2, 2, 3, 4, 4, 5, 6}).Draw(t, "func")
	c.Unit = rapid.SampledFrom([]string{"SECOND", "MILLISECOND"}).Draw(t, "unit")
	if rapid.Bool().Draw(t, "hasFrac") {
		c.Nanos = rapid.IntRange(0, 999).Draw(t, "ms") * 1000000
		if c.Func == 0 || c.Func == 6 {
			c.Nanos += rapid.IntRange(0, 999999).Draw(t, "subms")
		}
	}
	c.SrcFrm = rapid.SampledFrom([]int{0, 0, 1, 2, 3, 4, 5, 5}).Draw(t, "srcForm")
	switch c.SrcFrm {
	case 2:
		c.Src = strconv.Itoa(rapid.SampledFrom([]int{0, 60, -60, 300, -720, 840, -540}).Draw(t, "offH"))
	case 3, 4:
		c.Src = strconv.Itoa(rapid.SampledFrom(c19Offsets).Draw(t, "off"))
	case 5:
		c.Src = zone
	}
	c.OffSpace = rapid.Bool().Draw(t, "offSpace")
	if rapid.Bool().Draw(t, "useFrom") {
		c.FromTZ = zone
		if c.SrcFrm != 0 && rapid.Bool().Draw(t, "fromOther") {
			c.FromTZ = rapid.SampledFrom(zs).Draw(t, "fromZone")
		}
	}
	if rapid.Bool().Draw(t, "useTo") {
		c.ToTZ = rapid.SampledFrom(zs).Draw(t, "toZone")
	}
	c.DateFmt = rapid.IntRange(0, len(c19DateFmts)-1).Draw(t, "dateFmt")
	c.Delim = rapid.IntRange(0, 2).Draw(t, "delim")
	c.TimeFmt = rapid.SampledFrom([]int{1, 1, 2, 2, 3, 4, 5, 0}).Draw(t, "timeFmt")
	if c.TimeFmt == 0 && c.SrcFrm >= 1 && c.SrcFrm <= 4 {
		c.SrcFrm, c.Src = 0, "" // the parser advertises no "date + offset" form
	}
	c.Frac = rapid.IntRange(1, 9).Draw(t, "frac")
	c.AMPM = rapid.SampledFrom([]int{0, 0, 1, 2}).Draw(t, "ampm")
	c.Layout = rapid.IntRange(0, len(c19Layouts)-1).Draw(t, "layout")
	if edge <= 1 {
		// keep every wall clock inside years 1..9999: UTC only (or a positive numeric offset for the first instant)
		c.Nanos = 0
		c.FromTZ, c.ToTZ = "", ""
		if rapid.Bool().Draw(t, "edgeToUTC") {
			c.ToTZ = "UTC"
		}
		c.SrcFrm, c.Src = rapid.SampledFrom([]int{0, 1}).Draw(t, "edgeSrc"), ""
		if edge == 0 && rapid.Bool().Draw(t, "edgeOffset") {
			c.SrcFrm, c.Src = 4, "330"
		}
		if c.TimeFmt == 0 && c.SrcFrm != 0 {
			c.TimeFmt = 1
		}
		if edge == 1 && (c.TimeFmt == 0 || c.TimeFmt == 3 || c.TimeFmt == 5) {
			c.TimeFmt = 1
		}
	}
	c.Mut = rapid.IntRange(0, 6).Draw(t, "mut")
	c.MutPos = rapid.IntRange(0, 40).Draw(t, "mutPos")
	if c.Func == 1 && rapid.IntRange(0, 5).Draw(t, "emptyLayout") == 0 {
		c.EmptyLayout = true
		c.EmptyLayoutFlag = rapid.SampledFrom([]string{"", "true", "false"}).Draw(t, "emptyLayoutFlag")
	}
	return c
}

// c19OtherZone returns a zone different from z (decoy calls).
func c19OtherZone(z string) string {
	if z == "Asia/Tokyo" {
		return "America/Denver"
	}
	return "Asia/Tokyo"
}

const gapMarker = "\x00gap"

type wall struct{ y, mo, d, h, mi, s int }

func wallOf(tm time.Time) wall {
	return wall{tm.Year(), int(tm.Month()), tm.Day(), tm.Hour(), tm.Minute(), tm.Second()}
}

// parseRFC3339Own reads "yyyy-mm-ddThh:mm:ss" + ("" | "Z" | ±hh:mm) without the time package.
func parseRFC3339Own(s string) (w wall, hasTZ bool, offMin int, ok bool) {
	if len(s) < 19 {
		return
	}
	var n int
	n, err := fmt.Sscanf(s[:19], "%04d-%02d-%02dT%02d:%02d:%02d", &w.y, &w.mo, &w.d, &w.h, &w.mi, &w.s)
	if err != nil || n != 6 || s[4] != '-' || s[10] != 'T' {
		return
	}
	rest := s[19:]
	switch {
	case rest == "":
		return w, false, 0, true
	case rest == "Z":
		return w, true, 0, true
	case len(rest) == 6 && (rest[0] == '+' || rest[0] == '-') && rest[3] == ':':
		hh, e1 := strconv.Atoi(rest[1:3])
		mm, e2 := strconv.Atoi(rest[4:6])
		if e1 != nil || e2 != nil {
			return
		}
		offMin = hh*60 + mm
		if rest[0] == '-' {
			offMin = -offMin
		}
		return w, true, offMin, true
	}
	return
}

// wallToUnix converts wall-clock fields at a given offset to unix seconds without time.Parse.
func wallToUnix(w wall, offSec int) int64 {
	return time.Date(w.y, time.Month(w.mo), w.d, w.h, w.mi, w.s, 0, time.UTC).Unix() - int64(offSec)
}

func (c c19Case) nonTrivial(zone string) bool {
	if zone == "" || zone == "UTC" {
		return false
	}
	y := time.Unix(c.Unix, 0).UTC().Year()
	if y < 1970 || y > 2038 {
		return true
	}
	loc, err := time.LoadLocation(zone)
	if err != nil {
		return false
	}
	for _, tr := range zoneTransitions(loc, y) {
		d := tr - c.Unix
		if d < 0 {
			d = -d
		}
		if d <= 48*3600 {
			return true
		}
	}
	return false
}

// renderInput builds the smart-parser input for wall clock w (plus fraction) and the zone suffix.
func (c c19Case) renderInput(w wall, offMin int) (string, bool) {
	s := c19DateFmts[c.DateFmt](w.y, w.mo, w.d)
	tf := c.TimeFmt
	if tf == 0 {
		if c.SrcFrm == 5 {
			s += "-" + c.Src
		}
		return s, true
	}
	delim := c19Delims[c.Delim]
	if delim == "" && c.DateFmt != 4 {
		delim = "T"
	}
	h := w.h
	ap := ""
	if c.AMPM != 0 {
		ap = "AM"
		if h >= 12 {
			ap = "PM"
			h -= 12
		}
		if h == 0 {
			h = 12
		}
		if c.AMPM == 1 {
			ap = " " + ap
		}
	}
	exact := true
	var ts string
	switch tf {
	case 1:
		ts = fmt.Sprintf("%02d:%02d:%02d", h, w.mi, w.s)
	case 2:
		frac := fmt.Sprintf("%09d", c.Nanos)[:c.Frac]
		ts = fmt.Sprintf("%02d:%02d:%02d.%s", h, w.mi, w.s, frac)
		exact = frac == strings.Repeat("0", c.Frac) // the text shows no sub-second part that could be rounded
	case 3:
		ts = fmt.Sprintf("%02d:%02d", h, w.mi)
	case 4:
		ts = fmt.Sprintf("%02d%02d%02d", h, w.mi, w.s)
	case 5:
		ts = fmt.Sprintf("%02d%02d", h, w.mi)
	}
	s += delim + ts + ap
	sp := ""
	if c.OffSpace {
		sp = " "
	}
	switch c.SrcFrm {
	case 1:
		s += "Z"
	case 2:
		sign := "+"
		o := offMin
		if o < 0 {
			sign = "-"
			o = -o
		}
		s += sp + fmt.Sprintf("%s%02d", sign, o/60)
	case 3:
		s += sp + offStr(offMin, false)
	case 4:
		s += sp + offStr(offMin, true)
	case 5:
		s += "-" + c.Src
	}
	return s, exact
}

func checkC19(c c19Case) obs.Result {
	inst := time.Unix(c.Unix, int64(c.Nanos)).UTC()
	classes := []string{fmt.Sprintf("func=%d", c.Func), fmt.Sprintf("srcform=%d", c.SrcFrm)}
	y := inst.Year()
	if y < 1678 || y > 2262 {
		classes = append(classes, "outside-1678-2262")
	}

	// --- source zone of the input text ---
	var srcLoc *time.Location // location whose wall clock the text shows
	srcFixedMin := 0
	switch c.SrcFrm {
	case 0:
		// no zone in the text: the wall clock is the one of fromTZ (if used) else toTZ (overwrite) else abstract
		name := c.FromTZ
		if name == "" && (c.Func == 0 || c.Func == 1) {
			name = c.ToTZ
		}
		if name == "" {
			srcLoc = time.UTC
		} else {
			l, err := time.LoadLocation(name)
			if err != nil {
				return obs.Result{Excluded: "zone-not-loadable"}
			}
			srcLoc = l
		}
	case 1:
		srcLoc = time.UTC
	case 2, 3, 4:
		srcFixedMin, _ = strconv.Atoi(c.Src)
		srcLoc = time.FixedZone("", srcFixedMin*60)
	case 5:
		l, err := time.LoadLocation(c.Src)
		if err != nil {
			return obs.Result{Excluded: "zone-not-loadable"}
		}
		srcLoc = l
	}
	win := inst.In(srcLoc)
	w := wallOf(win)
	_, srcOffSec := win.Zone()

	nontrivZone := ""
	for _, z := range []string{c.Src, c.FromTZ, c.ToTZ} {
		if strings.Contains(z, "/") {
			nontrivZone = z
			break
		}
	}
	nt := c.nonTrivial(nontrivZone)
	if nt {
		classes = append(classes, "nontrivial")
	}

	// candidate instants the text may denote (two at a DST fall-back when the text has no offset)
	candidates := func(loc *time.Location, ww wall) []int64 {
		set := map[int64]bool{}
		base := time.Date(ww.y, time.Month(ww.mo), ww.d, ww.h, ww.mi, ww.s, 0, time.UTC).Unix()
		for _, probe := range []int64{base - 26*3600, base - 3600, base, base + 3600, base + 26*3600} {
			_, o := time.Unix(probe, 0).In(loc).Zone()
			u := base - int64(o)
			if wallOf(time.Unix(u, 0).In(loc)) == ww {
				set[u] = true
			}
		}
		var out []int64
		for u := range set {
			out = append(out, u)
		}
		sort.Slice(out, func(i, j int) bool { return out[i] < out[j] })
		return out
	}

	// checkOut verifies an RFC3339 output against the set of acceptable absolute seconds and the
	// location it must be rendered in (nil: no zone expected; wall clock must equal want).
	checkOut := func(out string, okInst []int64, outLoc *time.Location, exact bool) string {
		if len(okInst) == 0 {
			return gapMarker
		}
		ow, hasTZ, offMin, ok := parseRFC3339Own(out)
		if !ok {
			return fmt.Sprintf("output %q is not RFC3339", out)
		}
		if outLoc == nil {
			if hasTZ {
				return fmt.Sprintf("output %q carries a zone although none was involved", out)
			}
			u := wallToUnix(ow, 0)
			for _, a := range okInst {
				if u == a || (!exact && u == a+1) {
					return ""
				}
			}
			return fmt.Sprintf("output wall clock %q differs from the input's", out)
		}
		if !hasTZ {
			return fmt.Sprintf("output %q lacks the zone", out)
		}
		u := wallToUnix(ow, offMin*60)
		for _, a := range okInst {
			for _, cand := range []int64{a, a + 1} {
				if cand != a && exact {
					continue
				}
				// the output must show cand's wall clock in outLoc; its printed offset is the
				// true offset cut (or rounded) to whole minutes
				tw := time.Unix(cand, 0).In(outLoc)
				_, trueOff := tw.Zone()
				d := trueOff - offMin*60
				if d < 0 {
					d = -d
				}
				if wallOf(tw) == ow && d < 60 {
					_ = u
					return ""
				}
			}
		}
		return fmt.Sprintf("output %q is not the input instant (acceptable unix seconds %v) rendered in %v", out, okInst, outLoc)
	}

	locOf := func(name string) *time.Location {
		l, err := time.LoadLocation(name)
		if err != nil {
			return nil
		}
		return l
	}

	switch c.Func {
	case 5: // empty in => empty out
		for name, f := range map[string]func() (string, error){
			"dateTimeToRFC3339": func() (string, error) { return customfuncs.DateTimeToRFC3339(nil, "", c.FromTZ, c.ToTZ) },
			"dateTimeLayoutToRFC3339": func() (string, error) {
				return customfuncs.DateTimeLayoutToRFC3339(nil, "", c19Layouts[c.Layout].layout, "false", c.FromTZ, c.ToTZ)
			},
			"dateTimeToEpoch":        func() (string, error) { return customfuncs.DateTimeToEpoch(nil, "", c.FromTZ, c.Unit) },
			"epochToDateTimeRFC3339": func() (string, error) { return customfuncs.EpochToDateTimeRFC3339(nil, "", c.Unit) },
		} {
			out, err := f()
			if err != nil || out != "" {
				return obs.Violationf("%s(\"\") = %q, %v; want empty output", name, out, err)
			}
		}
		return obs.OK(false, append(classes, "empty")...)

	case 6: // unparsable input => error
		in, _ := c.renderInput(w, srcFixedMin)
		var bad string
		switch c.Mut % 4 {
		case 0: // impossible month
			ww := w
			ww.mo = 13 + c.MutPos%7
			bad, _ = c.renderInput(ww, srcFixedMin)
		case 1: // impossible day for the month
			ww := w
			ww.mo = 2
			ww.d = 30 + c.MutPos%2
			bad, _ = c.renderInput(ww, srcFixedMin)
		case 2: // impossible minute
			if c.TimeFmt == 0 {
				return obs.Result{Excluded: "mutation-needs-time-part"}
			}
			ww := w
			ww.mi = 60 + c.MutPos%30
			bad, _ = c.renderInput(ww, srcFixedMin)
		case 3: // garbage letter inside
			p := c.MutPos % (len(in) + 1)
			bad = in[:p] + string("xq#"[c.MutPos%3]) + in[p:]
		}
		out, err := customfuncs.DateTimeToRFC3339(nil, bad, c.FromTZ, c.ToTZ)
		if err == nil {
			return obs.Violationf("dateTimeToRFC3339(%q) = %q, want an error for unparsable input", bad, out)
		}
		ep, err := customfuncs.DateTimeToEpoch(nil, bad, c.FromTZ, c.Unit)
		if err == nil {
			return obs.Violationf("dateTimeToEpoch(%q) = %q, want an error for unparsable input", bad, ep)
		}
		// and an epoch text that is no integer of the 64-bit range: an error, never an invented time
		badEpoch := []string{"9223372036854775808", "-9223372036854775809", "99999999999999999999999", "NaN", "Inf", "-Infinity", "12a", "0x1p4", "--1", "1 2"}[c.MutPos%10]
		tz := []string{}
		if c.ToTZ != "" {
			tz = append(tz, c.ToTZ)
		}
		if out, err := customfuncs.EpochToDateTimeRFC3339(nil, badEpoch, c.Unit, tz...); err == nil {
			return obs.Violationf("epochToDateTimeRFC3339(%q, %s, %v) = %q, want an error for an unparsable epoch", badEpoch, c.Unit, tz, out)
		}
		return obs.OK(false, append(classes, fmt.Sprintf("invalid-%d", c.Mut%4))...)
	}

	if c.TimeFmt == 0 && c.SrcFrm >= 1 && c.SrcFrm <= 4 {
		return obs.Result{Excluded: "date-only-with-offset-not-advertised"}
	}
	// which absolute seconds may the rendered text denote?
	in, exact := c.renderInput(w, srcFixedMin)
	// the text shows only what its layout can carry: re-derive the shown wall clock
	shown := w
	switch c.TimeFmt {
	case 0:
		shown.h, shown.mi, shown.s = 0, 0, 0
	case 3, 5:
		shown.s = 0
	}
	textHasTZ := c.SrcFrm != 0
	var denoted []int64
	if textHasTZ {
		if c.SrcFrm == 5 {
			denoted = candidates(srcLoc, shown)
		} else {
			denoted = []int64{wallToUnix(shown, srcOffSecFor(c, srcOffSec))}
		}
	}

	switch c.Func {
	case 0, 1:
		var out string
		var err error
		layoutHasTZ := false
		if c.Func == 0 || c.EmptyLayout {
			if c.Decoy {
				// neighbours of the call under test: everything changed, and each argument changed alone
				_, _ = customfuncs.DateTimeToRFC3339(nil, in, "Asia/Tokyo", "America/Denver")
				_, _ = customfuncs.DateTimeToRFC3339(nil, in, "", "")
				_, _ = customfuncs.DateTimeToRFC3339(nil, in, c19OtherZone(c.FromTZ), c.ToTZ)
				_, _ = customfuncs.DateTimeToRFC3339(nil, in, c.FromTZ, c19OtherZone(c.ToTZ))
			}
			if c.EmptyLayout {
				classes = append(classes, "empty-layout")
				out, err = customfuncs.DateTimeLayoutToRFC3339(nil, in, "", c.EmptyLayoutFlag, c.FromTZ, c.ToTZ)
			} else {
				out, err = customfuncs.DateTimeToRFC3339(nil, in, c.FromTZ, c.ToTZ)
			}
		} else {
			L := c19Layouts[c.Layout]
			layoutHasTZ = L.hasTZ
			// explicit layouts carry whole seconds and a numeric offset (or none)
			offMin := 0
			if L.hasTZ {
				if c.SrcFrm >= 2 && c.SrcFrm <= 4 {
					offMin = srcFixedMin
				}
				srcLoc = time.FixedZone("", offMin*60)
			} else {
				name := c.FromTZ
				if name == "" {
					name = c.ToTZ
				}
				srcLoc = time.UTC
				if name != "" {
					if srcLoc = locOf(name); srcLoc == nil {
						return obs.Result{Excluded: "zone-not-loadable"}
					}
				}
			}
			w = wallOf(time.Unix(c.Unix, 0).In(srcLoc))
			shown = w
			if !L.secs {
				shown.s = 0
			}
			in = L.render(w.y, w.mo, w.d, w.h, w.mi, w.s, offMin)
			textHasTZ = L.hasTZ
			if textHasTZ {
				denoted = []int64{wallToUnix(shown, offMin*60)}
			}
			exact = true
			if c.Decoy {
				// same text and layout, the opposite layoutTZ flag and other zones
				_, _ = customfuncs.DateTimeLayoutToRFC3339(nil, in, L.layout, strconv.FormatBool(!L.hasTZ), "Asia/Tokyo", "America/Denver")
				// each argument changed alone (a memo keyed by only some of the arguments answers one of these for the other)
				_, _ = customfuncs.DateTimeLayoutToRFC3339(nil, in, L.layout, strconv.FormatBool(!L.hasTZ), c.FromTZ, c.ToTZ)
				_, _ = customfuncs.DateTimeLayoutToRFC3339(nil, in, L.layout, strconv.FormatBool(L.hasTZ), c19OtherZone(c.FromTZ), c.ToTZ)
				_, _ = customfuncs.DateTimeLayoutToRFC3339(nil, in, L.layout, strconv.FormatBool(L.hasTZ), c.FromTZ, c19OtherZone(c.ToTZ))
				_, _ = customfuncs.DateTimeLayoutToRFC3339(nil, in, "", strconv.FormatBool(L.hasTZ), c.FromTZ, c.ToTZ)
			}
			out, err = customfuncs.DateTimeLayoutToRFC3339(nil, in, L.layout, strconv.FormatBool(L.hasTZ), c.FromTZ, c.ToTZ)
		}
		if err != nil {
			if obs.KnownOpen("c19-smartparse-4digit-fraction-pm") && (c.Func == 0 || c.EmptyLayout) && c.TimeFmt == 2 && c.Frac == 4 && c.AMPM == 1 &&
				strings.Contains(in, " PM") {
				return obs.Result{Known: "c19-smartparse-4digit-fraction-pm", Classes: classes}
			}
			return obs.Violationf("func %d: input %q (fromTZ=%q toTZ=%q) rejected: %v", c.Func, in, c.FromTZ, c.ToTZ, err)
		}
		_ = layoutHasTZ
		var msg string
		switch {
		case textHasTZ && c.ToTZ == "":
			// same instant, rendered with the zone the text named
			msg = checkOut(out, denoted, srcLoc, exact)
		case textHasTZ && c.ToTZ != "":
			tl := locOf(c.ToTZ)
			if tl == nil {
				return obs.Result{Excluded: "zone-not-loadable"}
			}
			msg = checkOut(out, denoted, tl, exact)
		case !textHasTZ && c.FromTZ == "" && c.ToTZ == "":
			msg = checkOut(out, []int64{wallToUnix(shown, 0)}, nil, exact)
		case !textHasTZ && c.FromTZ != "" && c.ToTZ == "":
			fl := locOf(c.FromTZ)
			msg = checkOut(out, candidates(fl, shown), fl, exact)
		case !textHasTZ && c.FromTZ == "" && c.ToTZ != "":
			tl := locOf(c.ToTZ)
			msg = checkOut(out, candidates(tl, shown), tl, exact)
		default: // no zone in text, fromTZ and toTZ
			fl, tl := locOf(c.FromTZ), locOf(c.ToTZ)
			msg = checkOut(out, candidates(fl, shown), tl, exact)
		}
		if msg == gapMarker {
			return obs.Result{Excluded: "shown-wall-clock-falls-in-a-dst-gap"}
		}
		if msg != "" {
			return obs.Violationf("func %d: input %q fromTZ=%q toTZ=%q: %s", c.Func, in, c.FromTZ, c.ToTZ, msg)
		}
		return obs.OK(nt, classes...)

	case 2, 4: // dateTimeToEpoch (and round trip through epochToDateTimeRFC3339)
		// instants are on whole milliseconds and the text carries them; with unit SECOND the Unix time of an instant inside
		// a second is that second (the number of whole seconds elapsed: floor, also before 1970), whatever the fraction
		cc := c
		if c.Unit == "SECOND" && c.MutPos%3 == 0 {
			cc.Nanos = 0
		}
		if cc.TimeFmt == 0 || cc.TimeFmt == 3 || cc.TimeFmt == 5 {
			cc.TimeFmt = 1
		}
		if cc.Nanos != 0 {
			cc.TimeFmt = 2
			if cc.Frac < 3 {
				cc.Frac = 3
			}
		}
		in, _ = cc.renderInput(w, srcFixedMin)
		shown = w
		ms := int64(cc.Nanos / 1000000)
		var okSecs []int64
		switch {
		case cc.SrcFrm == 5:
			okSecs = candidates(srcLoc, shown)
		case cc.SrcFrm != 0:
			okSecs = []int64{wallToUnix(shown, srcOffSecFor(cc, srcOffSec))}
		case cc.FromTZ != "":
			okSecs = candidates(locOf(cc.FromTZ), shown)
		default:
			okSecs = []int64{wallToUnix(shown, 0)}
		}
		if len(okSecs) == 0 {
			return obs.Result{Excluded: "shown-wall-clock-falls-in-a-dst-gap"}
		}
		if c.Decoy {
			_, _ = customfuncs.DateTimeToEpoch(nil, in, "Asia/Tokyo", "SECOND")
			_, _ = customfuncs.DateTimeToEpoch(nil, in, "", "MILLISECOND")
			_, _ = customfuncs.DateTimeToEpoch(nil, in, c19OtherZone(cc.FromTZ), cc.Unit)
			other := "SECOND"
			if cc.Unit == "SECOND" {
				other = "MILLISECOND"
			}
			_, _ = customfuncs.DateTimeToEpoch(nil, in, cc.FromTZ, other)
		}
		ep, err := customfuncs.DateTimeToEpoch(nil, in, cc.FromTZ, cc.Unit)
		if err != nil {
			if obs.KnownOpen("c19-smartparse-4digit-fraction-pm") && cc.TimeFmt == 2 && cc.Frac == 4 && cc.AMPM == 1 && strings.Contains(in, " PM") {
				return obs.Result{Known: "c19-smartparse-4digit-fraction-pm", Classes: classes}
			}
			return obs.Violationf("dateTimeToEpoch(%q, %q, %s) failed: %v", in, cc.FromTZ, cc.Unit, err)
		}
		got, perr := strconv.ParseInt(ep, 10, 64)
		if perr != nil {
			return obs.Violationf("dateTimeToEpoch(%q) = %q: not an integer", in, ep)
		}
		matched, found := int64(0), false
		for _, a := range okSecs {
			want := a
			if cc.Unit == "MILLISECOND" {
				want = a*1000 + ms
			}
			if got == want {
				matched, found = a, true
			}
		}
		if !found {
			return obs.Violationf("dateTimeToEpoch(%q, fromTZ=%q, %s) = %s; want unix seconds in %v (ms part %d)", in, cc.FromTZ, cc.Unit, ep, okSecs, ms)
		}
		if c.Func == 4 {
			tzArgs := []string{}
			outLoc := time.UTC
			if c.ToTZ != "" {
				tzArgs = append(tzArgs, c.ToTZ)
				if outLoc = locOf(c.ToTZ); outLoc == nil {
					return obs.Result{Excluded: "zone-not-loadable"}
				}
			}
			back, err := customfuncs.EpochToDateTimeRFC3339(nil, ep, cc.Unit, tzArgs...)
			if err != nil {
				return obs.Violationf("epochToDateTimeRFC3339(%s,%s,%v) failed: %v", ep, cc.Unit, tzArgs, err)
			}
			if msg := checkOut(back, []int64{matched}, outLoc, true); msg != "" {
				return obs.Violationf("round trip %q -> %s -> %q: %s", in, ep, back, msg)
			}
		}
		return obs.OK(nt, classes...)

	case 3: // epochToDateTimeRFC3339 alone
		n := c.Unix
		if c.Unit == "MILLISECOND" {
			n = c.Unix*1000 + int64(c.Nanos/1000000)
		}
		tzArgs := []string{}
		outLoc := time.UTC
		if c.ToTZ != "" {
			tzArgs = append(tzArgs, c.ToTZ)
			if outLoc = locOf(c.ToTZ); outLoc == nil {
				return obs.Result{Excluded: "zone-not-loadable"}
			}
		}
		if c.Decoy {
			other := "SECOND"
			if c.Unit == "SECOND" {
				other = "MILLISECOND"
			}
			_, _ = customfuncs.EpochToDateTimeRFC3339(nil, strconv.FormatInt(n, 10), other, tzArgs...)
			_, _ = customfuncs.EpochToDateTimeRFC3339(nil, strconv.FormatInt(n, 10), c.Unit, c19OtherZone(c.ToTZ))
			_, _ = customfuncs.EpochToDateTimeRFC3339(nil, strconv.FormatInt(n, 10), c.Unit)
		}
		out, err := customfuncs.EpochToDateTimeRFC3339(nil, strconv.FormatInt(n, 10), c.Unit, tzArgs...)
		if err != nil {
			return obs.Violationf("epochToDateTimeRFC3339(%d,%s,%v) failed: %v", n, c.Unit, tzArgs, err)
		}
		if msg := checkOut(out, []int64{c.Unix}, outLoc, true); msg != "" {
			return obs.Violationf("epochToDateTimeRFC3339(%d,%s,%v): %s", n, c.Unit, tzArgs, msg)
		}
		return obs.OK(c.nonTrivial(c.ToTZ), classes...)
	}
	return obs.Result{Excluded: "unknown-func"}
}

// srcOffSecFor returns the offset (seconds) that the rendered numeric suffix states.
func srcOffSecFor(c c19Case, trueOff int) int {
	switch c.SrcFrm {
	case 1:
		return 0
	case 2, 3, 4:
		m, _ := strconv.Atoi(c.Src)
		return m * 60
	}
	return trueOff
}

func TestC19(t *testing.T) {
	obs.Run(t, "C19", genC19, checkC19)
}
