package props

// C13 — Caches and pools are semantically invisible (metamorphic over cache configurations).
// The only property that needs the build-tag-guarded hooks in /repo (idr.VerifSetNodeCaching,
// customfuncs.VerifSetDisableCaching / VerifResetCaches, transform.VerifNewParseCtxNoCache).

import (
	"bytes"
	"encoding/json"
	"fmt"
	"io"
	"strings"
	"testing"

	"github.com/jf-tech/go-corelib/caches"
	"github.com/jf-tech/go-corelib/ios"
	"github.com/jf-tech/omniparser"
	"github.com/jf-tech/omniparser/customfuncs"
	"github.com/jf-tech/omniparser/errs"
	v21 "github.com/jf-tech/omniparser/extensions/omniv21/customfuncs"
	"github.com/jf-tech/omniparser/extensions/omniv21/fileformat"
	"github.com/jf-tech/omniparser/extensions/omniv21/fileformat/csv"
	"github.com/jf-tech/omniparser/extensions/omniv21/fileformat/edi"
	"github.com/jf-tech/omniparser/extensions/omniv21/fileformat/fixedlength"
	csv2 "github.com/jf-tech/omniparser/extensions/omniv21/fileformat/flatfile/csv"
	fixedlength2 "github.com/jf-tech/omniparser/extensions/omniv21/fileformat/flatfile/fixedlength"
	jsonff "github.com/jf-tech/omniparser/extensions/omniv21/fileformat/json"
	xmlff "github.com/jf-tech/omniparser/extensions/omniv21/fileformat/xml"
	"github.com/jf-tech/omniparser/extensions/omniv21/transform"
	"github.com/jf-tech/omniparser/idr"
	"github.com/jf-tech/omniparser/transformctx"
	"pgregory.net/rapid"

	"verifharness/gen"
	"verifharness/obs"
	"verifharness/run"
)

type c13Case struct {
	Mode  string    `json:"mode"` // shape | trap
	Shape gen.Shape `json:"shape"`
	Recs  []gen.Rec `json:"recs"`
	// trap mode: XML records <rec><a>X<a>Y</a></a><b>Z</b></rec> with a transform that evaluates the textually
	// identical declaration {"xpath":"a"} as array child and as object child at the same node
	Trap [][3]string `json:"trap,omitempty"`
	// Warm: another transform (same schema, these records) is run before the measured one in the
	// "dirty" configuration, without resetting any cache
	Warm []gen.Rec `json:"warm,omitempty"`
	// sample mode: repository sample number Sample (schema and input)
	Sample int `json:"sample,omitempty"`
}

func genC13(t *rapid.T) c13Case {
	c := c13Case{}
	if rapid.IntRange(0, 5).Draw(t, "trap") == 0 {
		c.Mode = "trap"
		n := rapid.IntRange(1, 4).Draw(t, "ntrap")
		for i := 0; i < n; i++ {
			var tr [3]string
			for k := range tr {
				if rapid.Bool().Draw(t, fmt.Sprintf("trapName%d_%d", i, k)) {
					// texts that are themselves usable as xpaths (xpath_dynamic computed from them)
					tr[k] = rapid.SampledFrom([]string{"a", "b", ".", "..", "*", ""}).Draw(t, fmt.Sprintf("trapN%d_%d", i, k))
				} else {
					tr[k] = rapid.StringMatching(`[a-d]{0,3}`).Draw(t, fmt.Sprintf("trap%d_%d", i, k))
				}
			}
			c.Trap = append(c.Trap, tr)
		}
		return c
	}
	if rapid.IntRange(0, 7).Draw(t, "sampleArm") == 0 {
		if c.Sample = drawSample(t, "sample"); c.Sample > 0 {
			c.Mode = "sample"
			return c
		}
	}
	c.Mode = "shape"
	c.Shape = gen.DrawShape(t, gen.ShapeOpts{MaxXform: 3})
	if rapid.Bool().Draw(t, "forceCacheSensitive") {
		c.Shape.Xform = 3
	}
	c.Recs = gen.DrawRecs(t, c.Shape, "r", 1, 6, gen.ValueOpts{})
	c.Warm = gen.DrawRecs(t, c.Shape, "w", 0, 3, gen.ValueOpts{})
	return c
}

const c13TrapSchema = `{"parser_settings":{"version":"omni.2.1","file_format_type":"xml"},
"transform_declarations":{"FINAL_OUTPUT":{"xpath":"/root/rec","object":{
  "arr":{"array":[{"xpath":"a"}]},
  "obj":{"xpath":"a","object":{"v":{"xpath":"a"},"b":{"xpath":"../b"}}},
  "arr2":{"array":[{"xpath":"b"},{"xpath":"a"}]},
  "b":{"xpath":"b"},
  "dynobj":{"xpath":"a","object":{"viaDyn":{"xpath_dynamic":{"xpath":"a"}},"viaFn":{"xpath_dynamic":{"custom_func":{"name":"concat","args":[{"xpath":"a"}]}}}}},
  "tobj":{"xpath":"a","template":"t"},
  "tarr":{"array":[{"xpath":"a","template":"t"}]}
}},"t":{"object":{"inner":{"xpath":"a"}}}}}`

func (c c13Case) schemaAndInput(recs []gen.Rec) (string, []byte) {
	if c.Mode == "sample" {
		sch, in, _, _ := sampleOf(c.Sample)
		return sch, in
	}
	if c.Mode == "trap" {
		var b strings.Builder
		b.WriteString("<root>")
		for _, tr := range c.Trap {
			fmt.Fprintf(&b, "<rec><a>%s<a>%s</a></a><b>%s</b></rec>", tr[0], tr[1], tr[2])
		}
		b.WriteString("</root>")
		return c13TrapSchema, []byte(b.String())
	}
	return c.Shape.Schema(), c.Shape.Render(recs)
}

var c13Funcs = customfuncs.Merge(customfuncs.CommonCustomFuncs, v21.OmniV21CustomFuncs)

// c13Replica re-implements ingester.Read (reader -> ParseNode -> json.Marshal) with a parse context
// whose result cache is on or off; beforeRead runs before every reader.Read.
func c13Replica(schema string, in []byte, noCache bool, beforeRead func()) ([]run.Step, error) {
	content := []byte(schema)
	var hdr struct {
		ParserSettings struct {
			FileFormatType string `json:"file_format_type"`
		} `json:"parser_settings"`
	}
	_ = json.Unmarshal(content, &hdr)
	final, err := transform.ValidateTransformDeclarations(content, c13Funcs, nil)
	if err != nil {
		return nil, err
	}
	formats := []fileformat.FileFormat{csv.NewCSVFileFormat("schema"), csv2.NewCSVFileFormat("schema"), edi.NewEDIFileFormat("schema"),
		fixedlength.NewFixedLengthFileFormat("schema"), fixedlength2.NewFixedLengthFileFormat("schema"), jsonff.NewJSONFileFormat("schema"), xmlff.NewXMLFileFormat("schema")}
	var reader fileformat.FormatReader
	for _, ff := range formats {
		rt, err := ff.ValidateSchema(hdr.ParserSettings.FileFormatType, content, final)
		if err == errs.ErrSchemaNotSupported {
			continue
		}
		if err != nil {
			return nil, err
		}
		br, err := ios.StripBOM(bytes.NewReader(in))
		if err != nil {
			return nil, err
		}
		reader, err = ff.CreateFormatReader("input", br, rt)
		if err != nil {
			return nil, err
		}
		break
	}
	if reader == nil {
		return nil, fmt.Errorf("no format accepts the schema")
	}
	tctx := &transformctx.Ctx{InputName: "input", CtxAwareErr: reader}
	var steps []run.Step
	var prev *idr.Node
	for i := 0; i < 2*len(in)+64; i++ {
		if prev != nil {
			reader.Release(prev)
			prev = nil
		}
		if beforeRead != nil {
			beforeRead()
		}
		n, err := reader.Read()
		if n != nil {
			prev = n
		}
		if err != nil {
			if reader.IsContinuableError(err) {
				steps = append(steps, run.Step{Kind: "fail", ErrClass: "transform-failed"})
				continue
			}
			cls := "fatal"
			if err == io.EOF {
				cls = "eof"
			}
			steps = append(steps, run.Step{Kind: "term", ErrClass: cls})
			return steps, nil
		}
		var pctx interface {
			ParseNode(*idr.Node, *transform.Decl) (interface{}, error)
		}
		if noCache {
			pctx = transform.VerifNewParseCtxNoCache(tctx, c13Funcs, nil)
		} else {
			pctx = transform.NewParseCtx(tctx, c13Funcs, nil)
		}
		res, err := pctx.ParseNode(n, final)
		if err != nil {
			steps = append(steps, run.Step{Kind: "fail", ErrClass: "transform-failed"})
			continue
		}
		b, err := json.Marshal(res)
		if err != nil {
			steps = append(steps, run.Step{Kind: "term", ErrClass: "fatal"})
			return steps, nil
		}
		st := run.ClassifyStep(b, nil)
		st.Checksum = ""
		steps = append(steps, st)
	}
	return nil, run.ErrNoTerminal
}

func c13Key(s run.Step) string { return s.Kind + "|" + s.ErrClass + "|" + s.JSON }

func c13ResetAll() {
	idr.VerifSetNodeCaching(true)
	v21.VerifSetDisableCaching(false)
	v21.VerifResetCaches()
	caches.XPathExprCache = caches.NewLoadingCache()
}

type c13Config struct {
	name  string
	setup func()
	// beforeRead is used with the replica loop only
	beforeRead func()
	replica    bool
	noCache    bool
}

func checkC13(c c13Case) obs.Result {
	defer c13ResetAll()
	schema, in := c.schemaAndInput(c.Recs)
	classes := []string{"mode=" + c.Mode}
	if c.Mode == "sample" {
		classes = append(classes, "repo-sample")
	}
	if c.Mode == "shape" {
		classes = append(classes, "format="+c.Shape.Format, fmt.Sprintf("xform=%d", c.Shape.Xform))
	}
	full := func() ([]run.Step, error) {
		sch, err := omniparser.NewSchema("schema", strings.NewReader(schema))
		if err != nil {
			return nil, err
		}
		return run.Transcript(sch, bytes.NewReader(in), run.Opts{InputLen: len(in)})
	}
	c13ResetAll()
	ref, err := full()
	if err != nil {
		return obs.Result{Excluded: "reference run failed: " + err.Error()}
	}
	// the replica loop must agree with Transform.Read under the default configuration
	c13ResetAll()
	rep, err := c13Replica(schema, in, false, nil)
	if err != nil {
		return obs.Violationf("replica of ingester.Read failed: %v", err)
	}
	if d := run.Diff(ref, rep, c13Key); d != "" {
		return obs.Violationf("harness error: the replica of ingester.Read disagrees with Transform.Read under the default configuration:\n%s", d)
	}
	configs := []c13Config{
		{name: "node pool off", setup: func() { idr.VerifSetNodeCaching(false) }},
		{name: "result cache off", replica: true, noCache: true},
		{name: "xpath expression cache capacity 1", setup: func() { caches.XPathExprCache = caches.NewLoadingCache(1) }},
		{name: "xpath expression cache emptied before every record", replica: true, beforeRead: func() { caches.XPathExprCache = caches.NewLoadingCache() }},
		{name: "javascript caching disabled", setup: func() { v21.VerifSetDisableCaching(true) }},
		{name: "javascript program cache capacity 1", setup: func() { v21.JSProgramCache = caches.NewLoadingCache(1) }},
		{name: "node-JSON cache capacity 1", setup: func() { v21.NodeToJSONCache = caches.NewLoadingCache(1) }},
		{name: "node-JSON cache emptied before every record", replica: true, beforeRead: func() { v21.NodeToJSONCache = caches.NewLoadingCache() }},
		{name: "everything off", replica: true, noCache: true, setup: func() {
			idr.VerifSetNodeCaching(false)
			v21.VerifSetDisableCaching(true)
			caches.XPathExprCache = caches.NewLoadingCache(1)
		}},
	}
	disagree := map[string]string{}
	for _, cfg := range configs {
		c13ResetAll()
		if cfg.setup != nil {
			cfg.setup()
		}
		var got []run.Step
		var err error
		if cfg.replica {
			got, err = c13Replica(schema, in, cfg.noCache, cfg.beforeRead)
		} else {
			got, err = full()
		}
		if err != nil {
			return obs.Violationf("configuration %q: %v", cfg.name, err)
		}
		if d := run.Diff(ref, got, c13Key); d != "" {
			disagree[cfg.name] = d
		}
	}
	// caches left dirty by an earlier transform over the same schema
	if (c.Mode == "shape" && len(c.Warm) > 0) || c.Mode == "sample" {
		c13ResetAll()
		ws, win := c.schemaAndInput(c.Warm)
		if sch, err := omniparser.NewSchema("schema", strings.NewReader(ws)); err == nil {
			_, _ = run.Transcript(sch, bytes.NewReader(win), run.Opts{InputLen: len(win)})
		}
		got, err := full()
		if err != nil {
			return obs.Violationf("configuration 'caches warmed by an earlier transform': %v", err)
		}
		if d := run.Diff(ref, got, c13Key); d != "" {
			disagree["caches warmed by an earlier transform"] = d
		}
		classes = append(classes, "warmed")
	}
	if len(disagree) > 0 {
		// known finding: _node JSON cached by node ID goes stale for a node whose content changes between records
		// (javascript_with_context on the record's parent). Shape: ONLY configurations that bypass or empty the
		// node-JSON cache disagree with the default configuration.
		staleOnly := true
		for name := range disagree {
			switch name {
			case "javascript caching disabled", "node-JSON cache capacity 1", "node-JSON cache emptied before every record", "everything off":
			default:
				staleOnly = false
			}
		}
		if staleOnly && obs.KnownOpen("c13-node-json-cache-stale-for-changing-parent") && c.Mode == "shape" && c.Shape.Xform == 3 {
			// and the disagreement is confined to the "pjs" key (javascript_with_context on "..")
			if c13OnlyKeyDiffers(ref, schema, in, "pjs") {
				return obs.Result{Known: "c13-node-json-cache-stale-for-changing-parent", Classes: classes}
			}
		}
		var names []string
		for n := range disagree {
			names = append(names, n)
		}
		first := names[0]
		return obs.Violationf("results depend on cache configuration; differing configurations: %v\nfirst (A = everything enabled, B = %s):\n%s\nschema %s\ninput %q", names, first, disagree[first], schema, in)
	}
	nrec := 0
	for _, s := range ref {
		if s.Kind == "rec" {
			nrec++
		}
	}
	nt := nrec >= 2 && (c.Mode == "trap" || c.Mode == "sample" || c.Shape.Xform >= 1)
	return obs.OK(nt, classes...)
}

// c13OnlyKeyDiffers reports whether the run with javascript caching disabled differs from ref only in
// the given top-level output key.
func c13OnlyKeyDiffers(ref []run.Step, schema string, in []byte, key string) bool {
	c13ResetAll()
	v21.VerifSetDisableCaching(true)
	sch, err := omniparser.NewSchema("schema", strings.NewReader(schema))
	if err != nil {
		return false
	}
	got, err := run.Transcript(sch, bytes.NewReader(in), run.Opts{InputLen: len(in)})
	if err != nil || len(got) != len(ref) {
		return false
	}
	strip := func(js string) string {
		var m map[string]interface{}
		d := json.NewDecoder(strings.NewReader(js))
		d.UseNumber()
		if d.Decode(&m) != nil {
			return js
		}
		delete(m, key)
		b, _ := json.Marshal(m)
		return string(b)
	}
	for i := range ref {
		if ref[i].Kind != got[i].Kind || ref[i].ErrClass != got[i].ErrClass || strip(ref[i].JSON) != strip(got[i].JSON) {
			return false
		}
	}
	return true
}

func TestC13(t *testing.T) {
	obs.Run(t, "C13", genC13, checkC13)
}
