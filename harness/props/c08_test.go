package props

// C08 — JSON and XML documents are represented faithfully in the node tree.
//
// JSON: reference = encoding/json (json.Unmarshal of the document). The tree built by
// idr.JSONStreamReader for the whole document, converted back with idr.J2NodeToInterface(root, true) /
// idr.JSONify2, must be an equal JSON value (same keys, array order, strings, booleans, nulls, numbers
// equal as float64); the `copy` custom function through the json file format must emit an equal value
// for the whole document and for every top-level member / element taken as a record.
// XML: reference = an own token-level DOM built from two more encoding/xml decoders (Token() for URI
// and local name, RawToken() for the prefix as written); the reader's tree must be isomorphic to it:
// element order, local names, prefixes, URIs, attributes in order as leading children, character data
// (adjacent runs merged). Comments and processing instructions are not claimed and are ignored.

import (
	"encoding/json"
	"fmt"
	"io"
	"math"
	"sort"
	"strings"
	"testing"

	"github.com/jf-tech/omniparser/idr"
	"pgregory.net/rapid"

	"verifharness/gen"
	"verifharness/model"
	"verifharness/obs"
	"verifharness/run"
)

const (
	c08KnownEmptyKey    = "c08-json-single-empty-key-object-becomes-array"
	c08KnownTwoPrefixes = "c08-xml-one-uri-two-prefixes"
)

type c08Case struct {
	Format string `json:"format"` // json | xml
	Doc    string `json:"doc"`
	// Wrap (xml): how the document reaches idr.NewXMLStreamReader: 0 *strings.Reader (has ReadByte), 1 a plain io.Reader
	// handing out everything at once, 2 a plain io.Reader in 7-byte pieces, 3 one byte per Read
	Wrap int `json:"wrap,omitempty"`
}

type c08Plain struct{ r io.Reader }

func (p c08Plain) Read(b []byte) (int, error) { return p.r.Read(b) }

func (c c08Case) reader() io.Reader {
	switch c.Wrap {
	case 1:
		return c08Plain{strings.NewReader(c.Doc)}
	case 2:
		return c08Plain{run.NewChunkReader([]byte(c.Doc), run.Schedule{Sizes: []int{7}})}
	case 3:
		return c08Plain{run.NewChunkReader([]byte(c.Doc), run.Schedule{Sizes: []int{1}})}
	}
	return strings.NewReader(c.Doc)
}

func genC08(t *rapid.T) c08Case {
	if rapid.Bool().Draw(t, "json") {
		if rapid.IntRange(0, 59).Draw(t, "veryDeep") == 0 {
			// a chain of 300-1100 nested arrays / objects around a small value ("any nesting")
			depth := rapid.SampledFrom([]int{300, 513, 600, 1100}).Draw(t, "deepDepth")
			kinds := rapid.SliceOfN(rapid.IntRange(0, 2), 1, 5).Draw(t, "deepKinds")
			opens := []string{"[", `{"a":`, `[1,{"k":null,"v":`}
			closes := []string{"]", "}", `},"t"]`}
			var head strings.Builder
			tail := make([]string, depth)
			for i := 0; i < depth; i++ {
				k := kinds[i%len(kinds)]
				head.WriteString(opens[k])
				tail[depth-1-i] = closes[k]
			}
			leaf := rapid.SampledFrom([]string{`"x"`, `1.5`, `null`, `true`, `[]`, `{}`, `{"":[1,"2"]}`}).Draw(t, "deepLeaf")
			return c08Case{Format: "json", Doc: head.String() + leaf + strings.Join(tail, "")}
		}
		o := gen.JSONOpts{Hard: true, MaxDepth: 8, MaxNodes: 50, MaxWidth: 3}
		switch rapid.IntRange(0, 9).Draw(t, "flavour") {
		case 0, 1: // narrow and deep
			o.MaxWidth = 1
			o.ScalarProb = 2
		case 2: // plain keys, hard values
			o.Keys = []string{"a", "b", "", "0"}
		case 3: // mostly the keys that look like structure
			o.Keys = []string{"", "", "#attributes", "#text", "0", "[0]", "a"}
		}
		v := gen.DrawJSONValue(t, o)
		return c08Case{Format: "json", Doc: v.RenderSpaced(rapid.IntRange(0, 3).Draw(t, "ws"))}
	}
	o := gen.XMLOpts{HardText: true, CDATA: true, Comments: true, PIs: true, Prolog: true, TagSpace: true,
		MaxDepth: 5, MaxNodes: 40, MaxKids: 3,
		Namespaces: rapid.IntRange(0, 9).Draw(t, "ns") < 7,
		AttrNames:  []string{"k", "k", "id", "x-y", "_z"},
		Names:      []string{"a", "b", "c", "r", "x-1", "_y", "é"},
	}
	o.AttrValues = []string{"0", "1", "", " ", "x y"}
	d := gen.DrawXMLDoc(t, o)
	c := c08Case{Format: "xml", Doc: d.Render()}
	c.Wrap = rapid.SampledFrom([]int{0, 0, 1, 2, 3}).Draw(t, "wrap")
	// a pure-ASCII document may as well declare a single-byte encoding: the decoder then switches to a converting reader
	// in the middle of the input
	ascii := true
	for i := 0; i < len(c.Doc); i++ {
		if c.Doc[i] >= 0x80 {
			ascii = false
		}
	}
	if ascii && rapid.IntRange(0, 2).Draw(t, "asciiDecl") == 0 {
		label := rapid.SampledFrom([]string{"ISO-8859-1", "us-ascii", "windows-1252"}).Draw(t, "asciiDeclLabel")
		body := c.Doc
		if strings.HasPrefix(body, "<?xml") {
			if i := strings.Index(body, "?>"); i >= 0 {
				body = body[i+2:]
			}
		}
		c.Doc = `<?xml version="1.0" encoding="` + label + `"?>` + body
	}
	return c
}

// ---------------------------------------------------------------------------------------------
// JSON

// c08JSONDiff compares two decoded JSON values (numbers as float64; a nil slice / map equals an empty
// one). It returns "" when equal, else the path and the two values at the first difference.
func c08JSONDiff(want, got interface{}, path string) string {
	switch w := want.(type) {
	case nil:
		if got != nil {
			return fmt.Sprintf("%s: want null, got %T %v", path, got, got)
		}
	case bool:
		if g, ok := got.(bool); !ok || g != w {
			return fmt.Sprintf("%s: want %v, got %T %v", path, w, got, got)
		}
	case float64:
		g, ok := got.(float64)
		if !ok || !(g == w || (math.IsNaN(g) && math.IsNaN(w))) {
			return fmt.Sprintf("%s: want number %v, got %T %v", path, w, got, got)
		}
	case string:
		if g, ok := got.(string); !ok || g != w {
			return fmt.Sprintf("%s: want string %q, got %T %q", path, w, got, got)
		}
	case []interface{}:
		g, ok := got.([]interface{})
		if !ok {
			return fmt.Sprintf("%s: want array of %d, got %T %v", path, len(w), got, got)
		}
		if len(g) != len(w) {
			return fmt.Sprintf("%s: want array of %d, got array of %d", path, len(w), len(g))
		}
		for i := range w {
			if d := c08JSONDiff(w[i], g[i], fmt.Sprintf("%s[%d]", path, i)); d != "" {
				return d
			}
		}
	case map[string]interface{}:
		g, ok := got.(map[string]interface{})
		if !ok {
			return fmt.Sprintf("%s: want object with %d members, got %T %v", path, len(w), got, got)
		}
		keys := make([]string, 0, len(w))
		for k := range w {
			keys = append(keys, k)
		}
		sort.Strings(keys)
		for _, k := range keys {
			gv, ok := g[k]
			if !ok {
				return fmt.Sprintf("%s: member %q missing", path, k)
			}
			if d := c08JSONDiff(w[k], gv, fmt.Sprintf("%s.%q", path, k)); d != "" {
				return d
			}
		}
		if len(g) != len(w) {
			var extra []string
			for k := range g {
				if _, ok := w[k]; !ok {
					extra = append(extra, k)
				}
			}
			sort.Strings(extra)
			return fmt.Sprintf("%s: surplus members %q", path, extra)
		}
	default:
		return fmt.Sprintf("%s: unexpected reference type %T", path, want)
	}
	return ""
}

// c08EmptyKeyModel rewrites v the way the known defect does: an object whose only member has the
// empty string as key turns into a one-element array. hit reports whether anything was rewritten.
func c08EmptyKeyModel(v interface{}) (out interface{}, hit bool) {
	switch x := v.(type) {
	case []interface{}:
		o := make([]interface{}, len(x))
		for i := range x {
			var h bool
			o[i], h = c08EmptyKeyModel(x[i])
			hit = hit || h
		}
		return o, hit
	case map[string]interface{}:
		if only, ok := x[""]; ok && len(x) == 1 {
			o, _ := c08EmptyKeyModel(only)
			return []interface{}{o}, true
		}
		o := map[string]interface{}{}
		for k, e := range x {
			var h bool
			o[k], h = c08EmptyKeyModel(e)
			hit = hit || h
		}
		return o, hit
	}
	return v, false
}

type c08JSONStats struct {
	smallContainer, emptyKey, nonInteger, emptyContainer bool
	depth                                                int
}

func (s *c08JSONStats) walk(v interface{}, depth int) {
	if depth > s.depth {
		s.depth = depth
	}
	switch x := v.(type) {
	case float64:
		if x != math.Trunc(x) || math.IsInf(x, 0) {
			s.nonInteger = true
		}
	case []interface{}:
		if len(x) <= 1 {
			s.smallContainer = true
		}
		if len(x) == 0 {
			s.emptyContainer = true
		}
		for _, e := range x {
			s.walk(e, depth+1)
		}
	case map[string]interface{}:
		if len(x) <= 1 {
			s.smallContainer = true
		}
		if len(x) == 0 {
			s.emptyContainer = true
		}
		for k, e := range x {
			if k == "" {
				s.emptyKey = true
			}
			s.walk(e, depth+1)
		}
	}
}

// c08TopMembers decodes the values directly below a top-level container, in document order.
func c08TopMembers(doc string) ([]interface{}, bool) {
	dec := json.NewDecoder(strings.NewReader(doc))
	tok, err := dec.Token()
	if err != nil {
		return nil, false
	}
	d, ok := tok.(json.Delim)
	if !ok {
		return nil, false
	}
	out := []interface{}{}
	for dec.More() {
		if d == '{' {
			if _, err := dec.Token(); err != nil {
				return nil, false
			}
		}
		var v interface{}
		if err := dec.Decode(&v); err != nil {
			return nil, false
		}
		out = append(out, v)
	}
	return out, true
}

func c08CopySchema(format, xpath string) string {
	fo := map[string]interface{}{"custom_func": map[string]interface{}{"name": "copy"}, "no_trim": true, "keep_empty_or_null": true}
	if xpath != "" {
		fo["xpath"] = xpath
	}
	b, _ := json.Marshal(map[string]interface{}{
		"parser_settings":        map[string]interface{}{"version": "omni.2.1", "file_format_type": format},
		"transform_declarations": map[string]interface{}{"FINAL_OUTPUT": fo},
	})
	return string(b)
}

func c08CheckJSON(c c08Case) obs.Result {
	var want interface{}
	if err := json.Unmarshal([]byte(c.Doc), &want); err != nil {
		return obs.Violationf("harness: generated JSON is rejected by encoding/json: %v\ndoc=%q", err, c.Doc)
	}
	st := &c08JSONStats{}
	st.walk(want, 0)
	classes := []string{"format=json"}
	if st.emptyContainer {
		classes = append(classes, "empty-container")
	}
	if st.smallContainer {
		classes = append(classes, "container-with-0-or-1-members")
	}
	if st.emptyKey {
		classes = append(classes, "empty-string-key")
	}
	if st.nonInteger {
		classes = append(classes, "non-integer-number")
	}
	if strings.Contains(c.Doc, "\\") {
		classes = append(classes, "escape-sequences")
	}
	if st.depth >= 4 {
		classes = append(classes, "depth>=4")
	}
	members, isContainer := c08TopMembers(c.Doc)
	if !isContainer {
		classes = append(classes, "top-level-scalar")
	}
	nonTrivial := st.smallContainer || st.emptyKey || st.nonInteger
	wantDefect, defectApplies := c08EmptyKeyModel(want)

	// judge compares one observed value with the reference; "" = equal, "known" = exactly the known defect
	judge := func(what string, want, wantDefect interface{}, defectApplies bool, got interface{}) (string, bool) {
		d := c08JSONDiff(want, got, "$")
		if d == "" {
			return "", false
		}
		if defectApplies && obs.KnownOpen(c08KnownEmptyKey) && c08JSONDiff(wantDefect, got, "$") == "" {
			return "", true
		}
		gb, _ := json.Marshal(got)
		return fmt.Sprintf("%s is not the JSON value of the document: %s\n  got:  %s\n  doc:  %s", what, d, gb, c.Doc), false
	}
	knownHit := false
	check := func(what string, want, wantDefect interface{}, defectApplies bool, got interface{}) *obs.Result {
		msg, known := judge(what, want, wantDefect, defectApplies, got)
		if msg != "" {
			r := obs.Violationf("%s", msg)
			return &r
		}
		knownHit = knownHit || known
		return nil
	}

	// 1. whole document: tree -> interface{} -> JSON text
	r, err := idr.NewJSONStreamReader(strings.NewReader(c.Doc), ".")
	if err != nil {
		return obs.Violationf("NewJSONStreamReader: %v", err)
	}
	root, err := r.Read()
	if err != nil {
		return obs.Violationf("valid JSON document rejected by the stream reader: %v\ndoc=%q", err, c.Doc)
	}
	if res := check("J2NodeToInterface(tree of the whole document)", want, wantDefect, defectApplies, idr.J2NodeToInterface(root, true)); res != nil {
		return *res
	}
	var back interface{}
	js := idr.JSONify2(root)
	if err := json.Unmarshal([]byte(js), &back); err != nil {
		return obs.Violationf("JSONify2 of the whole-document tree is not JSON: %v\n  got: %q\n  doc: %s", err, js, c.Doc)
	}
	if res := check("JSONify2(tree of the whole document)", want, wantDefect, defectApplies, back); res != nil {
		return *res
	}
	r.Release(root)

	// 2. copy through the json file format: whole document as the record
	endNote := ""
	runCopy := func(xpath string) ([]interface{}, string) {
		sch, err := run.NewSchema(c08CopySchema("json", xpath))
		if err != nil {
			return nil, fmt.Sprintf("copy schema rejected: %v", err)
		}
		steps, err := run.Transcript(sch, strings.NewReader(c.Doc), run.Opts{InputLen: len(c.Doc)})
		if err != nil {
			return nil, fmt.Sprintf("transform: %v", err)
		}
		var out []interface{}
		for i, s := range steps {
			switch s.Kind {
			case "rec":
				var v interface{}
				if err := json.Unmarshal([]byte(s.JSON), &v); err != nil {
					return nil, fmt.Sprintf("record %d is not JSON: %q", i, s.JSON)
				}
				out = append(out, v)
			case "fail":
				// copy cannot fail on a record; a per-record failure means a record was not reproduced
				return nil, fmt.Sprintf("record %d failed: %s", i, s.Err)
			default:
				// how the stream ends is not C08's subject; a premature end shows up as a record count
				endNote = fmt.Sprintf(" (stream ended with %s %q)", s.ErrClass, s.Err)
			}
		}
		return out, ""
	}
	recs, msg := runCopy("")
	if msg != "" {
		return obs.Violationf("copy of the whole document (json format, FINAL_OUTPUT without xpath): %s\ndoc=%q", msg, c.Doc)
	}
	if len(recs) != 1 {
		return obs.Violationf("copy of the whole document (json format, FINAL_OUTPUT without xpath): %d records, want 1%s\ndoc=%q", len(recs), endNote, c.Doc)
	}
	if res := check("output of copy for the whole document", want, wantDefect, defectApplies, recs[0]); res != nil {
		return *res
	}

	// 3. every value directly below the top-level container as its own record (xpath "/*")
	if isContainer {
		classes = append(classes, "members-as-records")
		recs, msg := runCopy("/*")
		if msg != "" {
			return obs.Violationf("copy of the top-level members (json format, FINAL_OUTPUT xpath /*): %s\ndoc=%q", msg, c.Doc)
		}
		if len(recs) != len(members) {
			return obs.Violationf("copy of the top-level members (xpath /*): %d records, the document has %d members%s\ndoc=%q", len(recs), len(members), endNote, c.Doc)
		}
		for i := range members {
			wd, applies := c08EmptyKeyModel(members[i])
			if res := check(fmt.Sprintf("output of copy for top-level member %d", i), members[i], wd, applies, recs[i]); res != nil {
				return *res
			}
		}
	}
	if knownHit {
		return obs.Result{Known: c08KnownEmptyKey, NonTrivial: nonTrivial, Classes: append(classes, "known:single-empty-key-object")}
	}
	return obs.OK(nonTrivial, classes...)
}

// ---------------------------------------------------------------------------------------------
// XML

// c08TwoPrefixesShape reports whether every mismatch is a namespace prefix that is explained by the
// flat URI->prefix table of the reader: the node's URI was bound to at least two different prefixes by
// the declarations read so far, and the prefix in the tree is the one bound to that URI most recently.
func c08TwoPrefixesShape(dom *model.XMLDOM, diffs []model.Mismatch) bool {
	if len(diffs) == 0 {
		return false
	}
	// pre-order index of every element; attributes take the index of their element
	index := map[*model.TNode]int{}
	n := 0
	var walk func(e *model.TNode)
	walk = func(e *model.TNode) {
		i := n
		n++
		index[e] = i
		for _, k := range e.Kids {
			switch k.Kind {
			case model.TAttr:
				index[k] = i
			case model.TElem:
				walk(k)
			}
		}
	}
	walk(dom.Root)
	for _, d := range diffs {
		if d.Field != "prefix" || d.WantNode == nil || d.WantNode.URI == "" || d.WantNode.NSDecl {
			return false
		}
		i, ok := index[d.WantNode]
		if !ok || i >= len(dom.BindingsAt) {
			return false
		}
		prefixes := map[string]bool{}
		latest, found := "", false
		for _, b := range dom.Bindings[:dom.BindingsAt[i]] {
			if b.URI == d.WantNode.URI {
				prefixes[b.Prefix] = true
				latest, found = b.Prefix, true
			}
		}
		if !found || len(prefixes) < 2 || d.Got != latest || !prefixes[d.Want] {
			return false
		}
	}
	return true
}

func c08CheckXML(c c08Case) obs.Result {
	dom, err := model.ParseXMLDOM([]byte(c.Doc))
	if err != nil {
		return obs.Violationf("harness: generated XML is rejected by encoding/xml: %v\ndoc=%q", err, c.Doc)
	}
	// classes
	classes := []string{"format=xml"}
	distinct := map[model.NSBinding]bool{}
	uriPrefixes := map[string]map[string]bool{}
	prefixURIs := map[string]map[string]bool{}
	for _, b := range dom.Bindings {
		distinct[b] = true
		if uriPrefixes[b.URI] == nil {
			uriPrefixes[b.URI] = map[string]bool{}
		}
		uriPrefixes[b.URI][b.Prefix] = true
		if prefixURIs[b.Prefix] == nil {
			prefixURIs[b.Prefix] = map[string]bool{}
		}
		prefixURIs[b.Prefix][b.URI] = true
		if b.Prefix == "" {
			classes = append(classes, "default-namespace")
		}
	}
	if len(dom.Bindings) >= 2 {
		classes = append(classes, "namespace-bindings>=2")
	}
	for u, ps := range uriPrefixes {
		if u != "" && len(ps) >= 2 {
			classes = append(classes, "one-uri-two-prefixes")
			break
		}
	}
	for _, us := range prefixURIs {
		if len(us) >= 2 {
			classes = append(classes, "prefix-redeclared")
			break
		}
	}
	if dom.Mixed {
		classes = append(classes, "mixed-content")
	}
	if dom.HasCDATA {
		classes = append(classes, "cdata")
	}
	if dom.HasEntity {
		classes = append(classes, "references")
	}
	if dom.HasComment {
		classes = append(classes, "comments")
	}
	if dom.HasPI {
		classes = append(classes, "processing-instructions")
	}
	// de-duplicate labels added in loops
	sort.Strings(classes)
	uniq := classes[:0]
	for i, s := range classes {
		if i == 0 || s != classes[i-1] {
			uniq = append(uniq, s)
		}
	}
	classes = uniq
	nonTrivial := len(dom.Bindings) >= 2 || dom.Mixed || dom.HasCDATA || dom.HasEntity

	r, err := idr.NewXMLStreamReader(c.reader(), "/*")
	if err != nil {
		return obs.Violationf("NewXMLStreamReader: %v", err)
	}
	root, err := r.Read()
	if err != nil {
		return obs.Violationf("well-formed XML document rejected by the stream reader: %v\ndoc=%q", err, c.Doc)
	}
	if root.Parent == nil || root.Parent.Type != idr.DocumentNode || root.Parent.Parent != nil {
		return obs.Violationf("the root element is not a child of a parentless document node\ndoc=%q", c.Doc)
	}
	got := model.MergeText(model.SnapshotIDR(root))
	want := model.MergeText(dom.Root)
	diffs := model.DiffTree(want, got, model.DiffOpts{SkipNSDeclURI: true, Max: 1000})
	if len(diffs) > 0 {
		// the matcher needs the nodes of the unmerged DOM: diff again against it for prefix-only
		// differences (MergeText copies nodes)
		raw := model.DiffTree(dom.Root, model.SnapshotIDR(root), model.DiffOpts{SkipNSDeclURI: true, Max: 1000})
		if obs.KnownOpen(c08KnownTwoPrefixes) && len(raw) == len(diffs) && c08TwoPrefixesShape(dom, raw) {
			return obs.Result{Known: c08KnownTwoPrefixes, NonTrivial: nonTrivial, Classes: append(classes, "known:one-uri-two-prefixes")}
		}
		var sb strings.Builder
		for i, d := range diffs {
			if i == 5 {
				fmt.Fprintf(&sb, "  ... (%d differences)\n", len(diffs))
				break
			}
			sb.WriteString("  " + d.String() + "\n")
		}
		return obs.Violationf("the tree of the XML reader differs from the document as the standard decoder reports it:\n%s  tree: %s\n  doc:  %q", sb.String(), got.Render(), c.Doc)
	}
	r.Release(root)
	if msg := c08Interleaved(c.Doc); msg != "" {
		return obs.Violationf("%s", msg)
	}
	return obs.OK(nonTrivial, classes...)
}

// c08Interleaved: a reader's tree is a function of its own document. Two more readers over the same document and
// over a twin whose namespace prefixes are renamed are driven alternately, element by element ("/*/*"); what each
// delivers must be what it delivers when it runs alone.
func c08Interleaved(doc string) string {
	twin := doc
	for _, pr := range [][2]string{{"p", "zp"}, {"q", "zq"}, {"n", "zn"}, {"x", "zx"}} {
		twin = strings.ReplaceAll(twin, "xmlns:"+pr[0]+"=", "xmlns:"+pr[1]+"=")
		twin = strings.ReplaceAll(twin, "<"+pr[0]+":", "<"+pr[1]+":")
		twin = strings.ReplaceAll(twin, "</"+pr[0]+":", "</"+pr[1]+":")
		twin = strings.ReplaceAll(twin, " "+pr[0]+":", " "+pr[1]+":")
	}
	if _, err := model.ParseXMLDOM([]byte(twin)); err != nil {
		return "" // the textual renaming broke the twin: nothing to compare
	}
	solo := func(d string) ([]string, bool) {
		r, err := idr.NewXMLStreamReader(strings.NewReader(d), "/*/*")
		if err != nil {
			return nil, false
		}
		var out []string
		for i := 0; i < 500; i++ {
			n, err := r.Read()
			if err != nil {
				return out, true
			}
			out = append(out, idr.JSONify2(n))
			r.Release(n)
		}
		return out, false
	}
	wantA, okA := solo(doc)
	wantB, okB := solo(twin)
	if !okA || !okB {
		return ""
	}
	ra, _ := idr.NewXMLStreamReader(strings.NewReader(doc), "/*/*")
	rb, _ := idr.NewXMLStreamReader(strings.NewReader(twin), "/*/*")
	ia, ib := 0, 0
	for doneA, doneB := false, false; !(doneA && doneB); {
		if !doneA {
			n, err := ra.Read()
			if err != nil {
				doneA = true
				if ia != len(wantA) {
					return fmt.Sprintf("interleaved with another live reader, reader A delivers %d elements, alone %d", ia, len(wantA))
				}
			} else {
				if ia >= len(wantA) || idr.JSONify2(n) != wantA[ia] {
					return fmt.Sprintf("interleaved with a live reader over a prefix-renamed twin, reader A's element %d is %s; alone it is %s\ndoc  %q\ntwin %q",
						ia, idr.JSONify2(n), append(wantA, "(none)")[ia], doc, twin)
				}
				ia++
				ra.Release(n)
			}
		}
		if !doneB {
			n, err := rb.Read()
			if err != nil {
				doneB = true
				if ib != len(wantB) {
					return fmt.Sprintf("interleaved with another live reader, reader B delivers %d elements, alone %d", ib, len(wantB))
				}
			} else {
				if ib >= len(wantB) || idr.JSONify2(n) != wantB[ib] {
					return fmt.Sprintf("interleaved with a live reader over the original document, the twin reader's element %d is %s; alone it is %s\ndoc  %q\ntwin %q",
						ib, idr.JSONify2(n), append(wantB, "(none)")[ib], doc, twin)
				}
				ib++
				rb.Release(n)
			}
		}
	}
	return ""
}

func checkC08(c c08Case) obs.Result {
	if c.Format == "json" {
		return c08CheckJSON(c)
	}
	return c08CheckXML(c)
}

func TestC08(t *testing.T) {
	obs.Run(t, "C08", genC08, checkC08)
}
