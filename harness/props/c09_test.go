package props

// C09 — Results do not depend on how the input reader delivers its bytes (metamorphic).

import (
	"bytes"
	"fmt"
	"regexp"
	"strings"
	"testing"
	"unicode/utf8"

	"pgregory.net/rapid"

	"verifharness/gen"
	"verifharness/obs"
	"verifharness/run"
)

type malform struct {
	Kind int    `json:"kind"` // 0 none, 1 truncate at Off, 2 overwrite byte at Off with B, 3 insert Ins at Off
	Off  int    `json:"off"`
	B    byte   `json:"b"`
	Ins  []byte `json:"ins,omitempty"`
}

func (m malform) apply(in []byte) []byte {
	if len(in) == 0 {
		return in
	}
	off := m.Off % (len(in) + 1)
	switch m.Kind {
	case 1:
		return append([]byte{}, in[:off]...)
	case 2:
		out := append([]byte{}, in...)
		if off < len(out) {
			out[off] = m.B
		}
		return out
	case 3:
		out := append([]byte{}, in[:off]...)
		out = append(out, m.Ins...)
		return append(out, in[off:]...)
	}
	return in
}

func drawMalform(t *rapid.T, n int) malform {
	m := malform{}
	if rapid.IntRange(0, 9).Draw(t, "malformed") < 7 {
		return m
	}
	m.Kind = rapid.IntRange(1, 3).Draw(t, "malKind")
	m.Off = rapid.IntRange(0, n).Draw(t, "malOff")
	m.B = rapid.SampledFrom([]byte{'"', '\n', '<', '{', 0xff, 0x00, '~', '*', ',', '}', ']', '&'}).Draw(t, "malByte")
	m.Ins = []byte(rapid.SampledFrom([]string{"\"", "\n\n", "<x>", "}{", "\xff\xfe", "~~", ",,,", "\r", "</rec>", "]", "\xef\xbb\xbf"}).Draw(t, "malIns"))
	return m
}

type c09Case struct {
	Shape     gen.Shape      `json:"shape"`
	Recs      []gen.Rec      `json:"recs"`
	Mal       malform        `json:"mal"`
	Schedules []run.Schedule `json:"schedules"`
	// Sample > 0: the subject is repository sample number Sample (schema and input) instead of Shape/Recs
	Sample int `json:"sample,omitempty"`
	// Stretch.Len > 0: value Col of record Rec is repeated until it is at least Len bytes long - one token longer than
	// the 4096-byte buffers of bufio and of the decoders, so that consumers ask the source for >= 4096 bytes at once
	// (a bufio.Reader then hands the request straight to the underlying reader: data can arrive together with io.EOF)
	Stretch struct {
		Rec int `json:"rec"`
		Col int `json:"col"`
		Len int `json:"len"`
	} `json:"stretch"`
}

func (c c09Case) recs() []gen.Rec {
	if c.Stretch.Len == 0 || c.Stretch.Rec >= len(c.Recs) || c.Stretch.Col >= len(c.Recs[c.Stretch.Rec].Vals) {
		return c.Recs
	}
	out := append([]gen.Rec{}, c.Recs...)
	r := out[c.Stretch.Rec]
	r.Vals = append([]string{}, r.Vals...)
	v := r.Vals[c.Stretch.Col]
	if v == "" {
		v = "x"
	}
	r.Vals[c.Stretch.Col] = strings.Repeat(v, c.Stretch.Len/len(v)+1)
	out[c.Stretch.Rec] = r
	return out
}

func (c c09Case) input() []byte {
	if c.Sample > 0 {
		_, in, _, _ := sampleOf(c.Sample)
		return c.Mal.apply(in)
	}
	in := c.Mal.apply(c.Shape.Render(c.recs()))
	if c.Shape.BOM {
		in = append([]byte{0xEF, 0xBB, 0xBF}, in...)
	}
	return in
}

// interestingCuts returns byte offsets that split a multi-byte rune, a CRLF pair, an escape pair,
// a multi-byte delimiter or the BOM, keyed by class.
func interestingCuts(s gen.Shape, in []byte) map[string][]int {
	out := map[string][]int{}
	for i := 0; i < len(in); {
		r, sz := utf8.DecodeRune(in[i:])
		if sz > 1 {
			out["rune"] = append(out["rune"], i+1)
			if i == 0 && r == 0xFEFF {
				out["bom"] = append(out["bom"], 1, 2)
			}
		}
		if in[i] == '\r' && i+1 < len(in) && in[i+1] == '\n' {
			out["crlf"] = append(out["crlf"], i+1)
		}
		// a chunk that starts exactly where a line / record starts (with one big chunk size the last such cut makes the
		// final chunk one whole row, possibly returned together with io.EOF)
		if in[i] == '\n' && i+1 < len(in) {
			out["rowstart"] = append(out["rowstart"], i+1)
		}
		if s.EDI != nil && s.EDI.Release != "" && in[i] == s.EDI.Release[0] && i+1 < len(in) {
			out["escape"] = append(out["escape"], i+1)
		}
		if s.EDI != nil && len(s.EDI.Seg) > 1 && bytes.HasPrefix(in[i:], []byte(s.EDI.Seg)) {
			out["delim"] = append(out["delim"], i+1)
		}
		if (s.Format == "csv" || s.Format == "csv2") && in[i] == '"' && i+1 < len(in) && in[i+1] == '"' {
			out["escape"] = append(out["escape"], i+1)
		}
		if s.Format == "xml" && in[i] == '&' {
			out["escape"] = append(out["escape"], i+2)
		}
		if s.Format == "json" && in[i] == '\\' {
			out["escape"] = append(out["escape"], i+1)
		}
		i += sz
	}
	return out
}

func drawSchedule(t *rapid.T, label string, in []byte, cuts map[string][]int) run.Schedule {
	s := run.Schedule{}
	switch rapid.IntRange(0, 6).Draw(t, label+"kind") {
	case 6:
		s.Sizes = rapid.SliceOfN(rapid.IntRange(10, 48), 1, 3).Draw(t, label+"sizes")
	case 0:
		s.Sizes = []int{1}
	case 1:
		s.Sizes = rapid.SliceOfN(rapid.IntRange(1, 17), 1, 6).Draw(t, label+"sizes")
	case 2:
		s.Sizes = rapid.SliceOfN(rapid.SampledFrom([]int{127, 128, 129, 1, 2, 3}), 1, 4).Draw(t, label+"sizes")
	case 3:
		s.Sizes = rapid.SliceOfN(rapid.SampledFrom([]int{4095, 4096, 4097, 5, 64}), 1, 3).Draw(t, label+"sizes")
	case 4:
		s.Sizes = []int{2, 1, 3} // half-reader like
	default:
		s.Sizes = []int{1 << 20}
	}
	// forced cuts inside interesting byte pairs
	classes := []string{"rune", "crlf", "escape", "delim", "bom", "rowstart"}
	for _, cl := range classes {
		offs := cuts[cl]
		if len(offs) == 0 {
			continue
		}
		if rapid.Bool().Draw(t, label+"cut"+cl) {
			k := rapid.IntRange(1, 3).Draw(t, label+"ncut"+cl)
			for i := 0; i < k; i++ {
				s.Cuts = append(s.Cuts, offs[rapid.IntRange(0, len(offs)-1).Draw(t, label+"cutidx"+cl)])
			}
		}
	}
	if rapid.IntRange(0, 3).Draw(t, label+"zeros") == 0 {
		s.ZeroEvery = rapid.IntRange(1, 5).Draw(t, label+"zeroEvery")
		// (a bufio consumer gives up after 100 consecutive empty reads: stay well below)
		s.ZeroRun = rapid.SampledFrom([]int{1, 2, 3, 1, 2, 3, 35, 60}).Draw(t, label+"zeroRun")
	}
	s.EOFWithData = rapid.Bool().Draw(t, label+"eofWithData")
	return s
}

func genC09(t *rapid.T) c09Case {
	c := c09Case{}
	if rapid.IntRange(0, 7).Draw(t, "sampleArm") == 0 {
		if c.Sample = drawSample(t, "sample"); c.Sample > 0 {
			_, base, name, _ := sampleOf(c.Sample)
			c.Shape = gen.Shape{Format: sampleFormat(name)}
			c.Mal = drawMalform(t, len(base))
			in := c.input()
			cuts := interestingCuts(c.Shape, in)
			n := rapid.IntRange(2, 3).Draw(t, "nsched")
			for i := 0; i < n; i++ {
				c.Schedules = append(c.Schedules, drawSchedule(t, fmt.Sprintf("s%d", i), in, cuts))
			}
			return c
		}
	}
	c.Shape = gen.DrawShape(t, gen.ShapeOpts{AllowReplaceQuotes: true, Encodings: []string{"", "", "utf-8", "iso-8859-1", "windows-1252"}})
	c.Shape.BOM = rapid.IntRange(0, 3).Draw(t, "bom") == 0
	opts := gen.ValueOpts{}
	if rapid.IntRange(0, 9).Draw(t, "long") == 0 {
		opts.MaxLen = 150
	}
	c.Recs = gen.DrawRecs(t, c.Shape, "r", 0, 6, opts)
	if f := c.Shape.Format; len(c.Recs) > 0 && f != "fixedlength" && f != "fixedlength2" && rapid.IntRange(0, 7).Draw(t, "stretch") == 0 {
		c.Stretch.Rec = len(c.Recs) - 1 - rapid.IntRange(0, len(c.Recs)-1).Draw(t, "stretchRec")
		for col := range c.Recs[c.Stretch.Rec].Vals {
			if col != c.Shape.IntCol {
				c.Stretch.Col = col
				c.Stretch.Len = 3400 + rapid.IntRange(0, 2500).Draw(t, "stretchA") + rapid.IntRange(0, 2500).Draw(t, "stretchB")
				break
			}
		}
	}
	base := c.Shape.Render(c.recs())
	c.Mal = drawMalform(t, len(base))
	in := c.input()
	cuts := interestingCuts(c.Shape, in)
	n := rapid.IntRange(3, 5).Draw(t, "nsched")
	for i := 0; i < n; i++ {
		c.Schedules = append(c.Schedules, drawSchedule(t, fmt.Sprintf("s%d", i), in, cuts))
	}
	return c
}

var jsonLineRe = regexp.MustCompile(`line \d+`)

// maskedKey compares a step including its error text; for the json format the digits after "line "
// are masked: that reader reports the line of pre-fetched data (documented as a rough number in
// idr/jsonreader.go), which legitimately moves with the delivery schedule.
func maskedKey(format string) func(run.Step) string {
	return func(s run.Step) string {
		k := s.KeyWithErr()
		if format == "json" {
			k = jsonLineRe.ReplaceAllString(k, "line N")
		}
		return k
	}
}

func checkC09(c c09Case) obs.Result {
	schemaText := ""
	if c.Sample > 0 {
		st, _, _, ok := sampleOf(c.Sample)
		if !ok {
			return obs.Result{Excluded: "no such sample"}
		}
		schemaText = st
	} else {
		schemaText = c.Shape.Schema()
	}
	sch, err := run.NewSchema(schemaText)
	if err != nil {
		return obs.Violationf("generated schema rejected: %v", err)
	}
	in := c.input()
	key := maskedKey(c.Shape.Format)
	ref, err := run.Transcript(sch, bytes.NewReader(in), run.Opts{InputLen: len(in)})
	if err != nil {
		return obs.Result{Excluded: "reference run has no terminal result (C03's business)"}
	}
	cuts := interestingCuts(c.Shape, in)
	isCut := map[int]string{}
	for cl, offs := range cuts {
		for _, o := range offs {
			isCut[o] = cl
		}
	}
	classes := []string{"format=" + c.Shape.Format}
	if c.Sample > 0 {
		classes = append(classes, "repo-sample")
	}
	if c.Shape.Encoding != "" {
		classes = append(classes, "enc="+c.Shape.Encoding)
	}
	if c.Mal.Kind != 0 {
		classes = append(classes, "malformed")
	}
	if c.Stretch.Len > 0 {
		classes = append(classes, "token>=3400")
	}
	seen := map[string]bool{}
	for i, s := range c.Schedules {
		got, err := run.Transcript(sch, run.NewChunkReader(in, s), run.Opts{InputLen: len(in)})
		if err != nil {
			return obs.Violationf("schedule %d %+v: %v (reference run terminated after %d reads)", i, s, err, len(ref))
		}
		if d := run.Diff(ref, got, key); d != "" {
			return obs.Violationf("schedule %d %+v changes the results (A = single chunk, B = chunked):\n%s\ninput=%q", i, s, d, in)
		}
		for _, cu := range s.Cuts {
			if cl, ok := isCut[cu]; ok && !seen[cl] {
				seen[cl] = true
				classes = append(classes, "cut="+cl)
			}
		}
		if s.ZeroRun > 0 && !seen["zero"] {
			seen["zero"] = true
			classes = append(classes, "zero-reads")
		}
	}
	nrec := 0
	for _, st := range ref {
		if st.Kind != "term" {
			nrec++
		}
	}
	nt := nrec >= 2 && (seen["rune"] || seen["crlf"] || seen["escape"] || seen["delim"] || seen["bom"])
	return obs.OK(nt, classes...)
}

func TestC09(t *testing.T) {
	obs.Run(t, "C09", genC09, checkC09)
}
