package props

// Native fuzz targets (thorough tier): the same generators and oracles as the rapid properties, driven by
// Go's coverage-guided fuzzer through rapid.MakeFuzz. Used where byte-level, coverage-guided mutation pays:
// schema/input mutation (C03), the EDI tokenizer (C07) and delivery schedules over text grammars (C09).

import (
	"testing"

	"verifharness/obs"
)

func FuzzC03(f *testing.F) { obs.Fuzz(f, "C03", genC03, checkC03) }
func FuzzC07(f *testing.F) { obs.Fuzz(f, "C07", genC07, checkC07) }
func FuzzC09(f *testing.F) { obs.Fuzz(f, "C09", genC09, checkC09) }
func FuzzC01(f *testing.F) { obs.Fuzz(f, "C01", genC01, checkC01) }
func FuzzC06(f *testing.F) { obs.Fuzz(f, "C06", genC06, checkC06) }
