package props

// C14 — Schemas and process-wide state are safe to share between goroutines (concurrent differential
// vs the serial transcript; the driver builds this test with -race).

import (
	"bytes"
	"fmt"
	"runtime"
	"sync"
	"testing"

	"github.com/jf-tech/omniparser"
	"github.com/jf-tech/omniparser/transformctx"
	"pgregory.net/rapid"

	"verifharness/gen"
	"verifharness/obs"
	"verifharness/run"
)

type c14Entry struct {
	Shape gen.Shape `json:"shape"`
	Recs  []gen.Rec `json:"recs"`
	// Sample > 0: the entry is repository sample number Sample (schema and input) instead of Shape/Recs
	Sample int `json:"sample,omitempty"`
}

func (e c14Entry) schemaAndInput() (string, []byte, bool) {
	if e.Sample > 0 {
		sch, in, _, ok := sampleOf(e.Sample)
		return sch, in, ok
	}
	return e.Shape.Schema(), e.Shape.Render(e.Recs), true
}

type c14Case struct {
	Entries  []c14Entry `json:"entries"`
	Assign   []int      `json:"assign"` // goroutine g runs entry Assign[g] over the SHARED Schema object of that entry
	Repeats  int        `json:"repeats"`
	MaxProcs int        `json:"maxprocs"`
	Jitter   []int      `json:"jitter"` // goroutine g yields before step i when Jitter[(g+i)%len] == 1
}

func genC14(t *rapid.T) c14Case {
	c := c14Case{}
	n := rapid.IntRange(2, 4).Draw(t, "nentries")
	for i := 0; i < n; i++ {
		if rapid.IntRange(0, 5).Draw(t, fmt.Sprintf("e%dsample", i)) == 0 {
			if k := drawSample(t, fmt.Sprintf("e%dsampleNo", i)); k > 0 {
				c.Entries = append(c.Entries, c14Entry{Sample: k})
				continue
			}
		}
		e := c14Entry{Shape: gen.DrawShape(t, gen.ShapeOpts{MaxXform: 3})}
		if rapid.IntRange(0, 5).Draw(t, fmt.Sprintf("e%dexternals", i)) == 0 {
			e.Shape.Xform = 4 // output depends on the transform's external properties: goroutines pass different ones
		}
		e.Recs = gen.DrawRecs(t, e.Shape, fmt.Sprintf("e%d", i), 1, 5, gen.ValueOpts{})
		c.Entries = append(c.Entries, e)
	}
	g := rapid.SampledFrom([]int{2, 4, 8, 16}).Draw(t, "goroutines")
	for i := 0; i < g; i++ {
		// entry 0 is always shared by at least two goroutines, entry 1 always runs too
		switch i {
		case 0, 1:
			c.Assign = append(c.Assign, 0)
		case 2:
			c.Assign = append(c.Assign, 1)
		default:
			c.Assign = append(c.Assign, rapid.IntRange(0, n-1).Draw(t, fmt.Sprintf("assign%d", i)))
		}
	}
	if g == 2 {
		c.Assign = []int{0, 0}
	}
	c.Repeats = rapid.IntRange(1, 3).Draw(t, "repeats")
	c.MaxProcs = rapid.SampledFrom([]int{1, 2, 16}).Draw(t, "maxprocs")
	c.Jitter = rapid.SliceOfN(rapid.IntRange(0, 1), 1, 7).Draw(t, "jitter")
	return c
}

// c14Exts: the external properties of even and odd goroutines (schemas of the externals flavour read tag, xp, num, flag).
var c14Exts = []map[string]string{
	{"tag": "A", "xp": "c0", "num": "7", "flag": "true"},
	{"tag": "B", "xp": "*[last()]", "num": "-3", "flag": "false"},
}

func c14Run(sch omniparser.Schema, in []byte, ext map[string]string, yield func(i int)) ([]run.Step, error) {
	tr, err := sch.NewTransform("input", bytes.NewReader(in), &transformctx.Ctx{ExternalProperties: ext})
	if err != nil {
		return []run.Step{{Kind: "term", Err: err.Error(), ErrClass: "newtransform"}}, nil
	}
	var steps []run.Step
	for i := 0; i < 2*len(in)+64; i++ {
		if yield != nil {
			yield(i)
		}
		b, err := tr.Read()
		st := run.ClassifyStep(b, err)
		if err == nil {
			rr, rerr := tr.RawRecord()
			if rerr != nil {
				return steps, fmt.Errorf("RawRecord after a successful Read failed: %v", rerr)
			}
			st.Checksum = rr.Checksum()
		}
		steps = append(steps, st)
		if st.Kind == "term" {
			return steps, nil
		}
	}
	return steps, run.ErrNoTerminal
}

func checkC14(c c14Case) obs.Result {
	obs.NoteCurrent("C14", c)
	prev := runtime.GOMAXPROCS(c.MaxProcs)
	defer runtime.GOMAXPROCS(prev)
	schemas := make([]omniparser.Schema, len(c.Entries))
	inputs := make([][]byte, len(c.Entries))
	serial := make([][2][]run.Step, len(c.Entries))
	js, sample := false, false
	for i, e := range c.Entries {
		schemaText, in, ok := e.schemaAndInput()
		if !ok {
			return obs.Result{Excluded: "no such sample"}
		}
		sample = sample || e.Sample > 0
		sch, err := run.NewSchema(schemaText)
		if err != nil {
			return obs.Violationf("generated schema rejected: %v", err)
		}
		schemas[i] = sch
		inputs[i] = in
		for x := range c14Exts {
			// the serial reference of each (entry, externals) pair comes from a Schema object of its own: the shared one must
			// not have been shaped by an earlier transform
			fresh, ferr := run.NewSchema(schemaText)
			if ferr != nil {
				return obs.Violationf("generated schema rejected: %v", ferr)
			}
			serial[i][x], err = c14Run(fresh, inputs[i], c14Exts[x], nil)
			if err != nil {
				return obs.Result{Excluded: "serial run has no terminal result"}
			}
		}
		if e.Shape.Xform >= 2 {
			js = true
		}
	}
	type result struct {
		g, rep int
		steps  []run.Step
		err    error
	}
	results := make(chan result, len(c.Assign)*c.Repeats)
	var wg sync.WaitGroup
	start := make(chan struct{})
	for g, e := range c.Assign {
		wg.Add(1)
		go func(g, e int) {
			defer wg.Done()
			<-start
			for rep := 0; rep < c.Repeats; rep++ {
				steps, err := c14Run(schemas[e], inputs[e], c14Exts[g%2], func(i int) {
					if c.Jitter[(g+i)%len(c.Jitter)] == 1 {
						runtime.Gosched()
					}
				})
				results <- result{g, rep, steps, err}
			}
		}(g, e)
	}
	close(start)
	wg.Wait()
	close(results)
	for r := range results {
		e := c.Assign[r.g]
		if r.err != nil {
			return obs.Violationf("goroutine %d (entry %d, repeat %d): %v", r.g, e, r.rep, r.err)
		}
		if d := run.Diff(serial[e][r.g%2], r.steps, run.Step.KeyExact); d != "" {
			return obs.Violationf("goroutine %d (entry %d, repeat %d) running concurrently with %d others obtained different results than alone (A = serial, B = concurrent):\n%s\ninput %q",
				r.g, e, r.rep, len(c.Assign)-1, d, inputs[e])
		}
	}
	distinct := map[int]bool{}
	for _, e := range c.Assign {
		distinct[e] = true
	}
	classes := []string{fmt.Sprintf("goroutines=%d", len(c.Assign)), fmt.Sprintf("maxprocs=%d", c.MaxProcs)}
	if js {
		classes = append(classes, "javascript")
	}
	if sample {
		classes = append(classes, "repo-sample")
	}
	obs.Count("goroutine_transforms", len(c.Assign)*c.Repeats)
	return obs.OK(len(distinct) >= 2, classes...)
}

func TestC14(t *testing.T) {
	obs.Run(t, "C14", genC14, checkC14)
}
