package props

// C04 — Streaming target selection equals whole-document selection (XML, JSON).
//
// Differential oracle (DESIGN.md §5 C04): the same document is loaded completely (stream reader with a
// root-selecting xpath; that tree is cross-checked against an independent reference so the "whole
// document" side is not taken on trust), then idr.MatchAll gives P = nodes on the target path (xpath
// without its final predicate) and F = nodes the full xpath selects. Expected deliveries are the
// outermost members of P that are in F, in document order. The streamed sequence - through the idr
// stream readers directly and through the xml / json file formats with the xpath on FINAL_OUTPUT and a
// `copy` transform - must be that sequence, each node snapshotted the moment it is delivered.

import (
	"encoding/json"
	"errors"
	"fmt"
	"io"
	"reflect"
	"strings"
	"testing"

	"github.com/jf-tech/omniparser/idr"
	"pgregory.net/rapid"

	"verifharness/gen"
	"verifharness/model"
	"verifharness/obs"
	"verifharness/run"
)

const c04KnownNested = "c04-outer-candidate-accepted-via-descendant"

type c04Case struct {
	Format  string `json:"format"`  // xml | json
	Doc     string `json:"doc"`     // one well-formed document
	Path    string `json:"path"`    // target xpath without its final predicate
	Pred    string `json:"pred"`    // "" or the final-step predicate, brackets included
	Release bool   `json:"release"` // reader level: Release() every delivered node (else leave it to the next Read)
}

func (c c04Case) xpath() string { return c.Path + c.Pred }

func genC04(t *rapid.T) c04Case {
	c := c04Case{Release: rapid.Bool().Draw(t, "release")}
	big := rapid.IntRange(0, 9).Draw(t, "big") == 9 // one in ten: documents of up to ~200 nodes
	if rapid.Bool().Draw(t, "xml") {
		c.Format = "xml"
		o := gen.XMLOpts{MaxDepth: 6, MaxNodes: 70, MaxKids: 3, SibRepeat: 5,
			UniqueIDs: rapid.IntRange(0, 9).Draw(t, "ids") < 3,
			Comments:  rapid.IntRange(0, 9).Draw(t, "comments") < 2,
			CDATA:     rapid.IntRange(0, 9).Draw(t, "cdata") < 2,
			Prolog:    rapid.IntRange(0, 9).Draw(t, "prolog") < 2,
		}
		o.Names = []string{"a", "a", "b", "b", "c", "c", "r"} // "r" is mostly the root: '//r' rarely has a second outermost match
		if rapid.IntRange(0, 9).Draw(t, "fewNames") < 4 {
			o.Names = []string{"a", "a", "b"} // more nesting of equal names
			o.RootNames = []string{"r", "a"}
		}
		if big {
			o.MaxNodes, o.MaxKids = 200, 5
		}
		// namespace prefixes on some elements: an unprefixed name test must not select a prefixed element of the
		// same local name (and vice versa)
		o.Namespaces = rapid.IntRange(0, 9).Draw(t, "namespaces") < 3
		// values with quote characters: predicates then carry literals with the other quote inside ([b="x'y"])
		if rapid.IntRange(0, 9).Draw(t, "quotedValues") < 3 {
			o.Texts = []string{"x", "xx", "y", "x'y", "it's", "say \"hi\"", "\"", "'", "a]b", "[x"}
			o.AttrValues = []string{"0", "1", "2", "a'b", "\"1\"", "1]"}
		}
		d := gen.DrawXMLDoc(t, o)
		c.Doc = d.Render()
		var targets []gen.StreamTarget
		for _, e := range d.Elements() {
			targets = append(targets, gen.StreamTarget{Chain: e.Chain, TruePreds: e.TruePreds([]string{"a", "b", "c"})})
		}
		x := gen.DrawStreamXPath(t, targets, gen.StreamXPathOpts{})
		c.Path, c.Pred = x.Lead+x.Path, x.Pred+x.Trail
		return c
	}
	c.Format = "json"
	o := gen.JSONOpts{MaxDepth: 6, MaxNodes: 70, ScalarProb: 4}
	if rapid.IntRange(0, 9).Draw(t, "fewNames") < 3 {
		o.Keys = []string{"a", "b"}
	}
	// numeric flavour: every string-value in the document is a number, so that predicates comparing
	// with a number literal are defined (the xpath engine panics on non-numeric text, see checkC04)
	if big {
		o.MaxNodes, o.MaxWidth = 200, 6
	}
	numeric := rapid.IntRange(0, 9).Draw(t, "numericDoc") < 3
	if numeric {
		o.ScalarKinds = []string{gen.JSONNum}
		o.Numbers = []string{"1", "2", "3", "4", "5", "6", "0"}
		o.MinWidth = 1
		o.TopKinds = []string{gen.JSONObj, gen.JSONObj, gen.JSONArr}
	}
	v := gen.DrawJSONValue(t, o)
	c.Doc = v.RenderSpaced(rapid.IntRange(0, 3).Draw(t, "ws"))
	var targets []gen.StreamTarget
	for _, p := range v.Paths() {
		targets = append(targets, gen.StreamTarget{Chain: p.Chain, TruePreds: p.TruePreds([]string{"a", "b", "c"}, numeric)})
	}
	x := gen.DrawStreamXPath(t, targets, gen.StreamXPathOpts{JSON: true, Numeric: numeric})
	c.Path, c.Pred = x.Lead+x.Path, x.Pred+x.Trail
	return c
}

// c04Delivery is what is kept of one delivered / expected node.
type c04Delivery struct {
	Snap  *model.TNode
	Chain []string // ancestors: kind, name, attributes
	JSON  string   // idr.JSONify2 of the node (what `copy` emits)
}

func (d c04Delivery) key() string {
	return strings.Join(d.Chain, "/") + " :: " + d.Snap.Render()
}

func c04Deliver(n *idr.Node) c04Delivery {
	return c04Delivery{Snap: model.SnapshotIDR(n), Chain: model.AncestorChain(n), JSON: idr.JSONify2(n)}
}

func c04Keys(ds []c04Delivery) []string {
	out := make([]string, len(ds))
	for i, d := range ds {
		out[i] = d.key()
	}
	return out
}

func c04SameSeq(a, b []string) bool {
	if len(a) != len(b) {
		return false
	}
	for i := range a {
		if a[i] != b[i] {
			return false
		}
	}
	return true
}

func c04DescribeDiff(exp, got []string) string {
	n := len(exp)
	if len(got) < n {
		n = len(got)
	}
	for i := 0; i < n; i++ {
		if exp[i] != got[i] {
			return fmt.Sprintf("delivery %d differs:\n  expected: %s\n  got:      %s\n(expected %d deliveries, got %d)", i, exp[i], got[i], len(exp), len(got))
		}
	}
	if len(got) > len(exp) {
		return fmt.Sprintf("expected %d deliveries, got %d; first surplus: %s", len(exp), len(got), got[n])
	}
	return fmt.Sprintf("expected %d deliveries, got %d; first missing: %s", len(exp), len(got), exp[n])
}

// c04Whole loads the document completely and returns the document node.
func c04Whole(c c04Case) (*idr.Node, error) {
	if c.Format == "xml" {
		r, err := idr.NewXMLStreamReader(strings.NewReader(c.Doc), "/*")
		if err != nil {
			return nil, err
		}
		root, err := r.Read()
		if err != nil {
			return nil, err
		}
		if root.Parent == nil || root.Parent.Type != idr.DocumentNode {
			return nil, fmt.Errorf("root element has no document node above it")
		}
		return root.Parent, nil
	}
	r, err := idr.NewJSONStreamReader(strings.NewReader(c.Doc), ".")
	if err != nil {
		return nil, err
	}
	return r.Read()
}

// c04Faithful cross-checks the whole-document tree against an independent reference.
func c04Faithful(c c04Case, doc *idr.Node) string {
	if c.Format == "xml" {
		dom, err := model.ParseXMLDOM([]byte(c.Doc))
		if err != nil {
			return "reference decoder rejects the generated document: " + err.Error()
		}
		var rootEl *idr.Node
		for k := doc.FirstChild; k != nil; k = k.NextSibling {
			if k.Type == idr.ElementNode {
				rootEl = k
			}
		}
		if rootEl == nil {
			return "no root element in the loaded tree"
		}
		if d := model.DiffTree(model.MergeText(dom.Root), model.MergeText(model.SnapshotIDR(rootEl)), model.DiffOpts{SkipNSDeclURI: true}); len(d) > 0 {
			return d[0].String()
		}
		return ""
	}
	var want interface{}
	if err := json.Unmarshal([]byte(c.Doc), &want); err != nil {
		return "encoding/json rejects the generated document: " + err.Error()
	}
	got := idr.J2NodeToInterface(doc, true)
	if !reflect.DeepEqual(got, want) {
		return fmt.Sprintf("tree converts back to %v, document is %v", got, want)
	}
	return ""
}

// errC04EnginePanic: evaluating the xpath on the completely loaded document panics inside the xpath
// engine (antchfx/xpath compares a node-set with a number literal through strconv.ParseFloat and
// panics on text that is not a number). The selection on the whole document is then undefined, so the
// case lies outside what this differential can judge (the panic itself is C03's subject).
var errC04EnginePanic = errors.New("xpath engine panics on the whole document")

type c04Expect struct {
	expected, defect []c04Delivery // defect: what the known nested-candidate defect would deliver
	nP, nOuter       int
	nested           bool
	rejThenAcc       bool
	siblings         bool
	mixed            bool
}

func c04Expected(c c04Case, doc *idr.Node) (c04Expect, error) {
	var e c04Expect
	order := map[*idr.Node]int{}
	var walk func(n *idr.Node)
	walk = func(n *idr.Node) {
		order[n] = len(order)
		hasEl, hasTx := false, false
		for k := n.FirstChild; k != nil; k = k.NextSibling {
			if k.Type == idr.ElementNode {
				hasEl = true
			}
			if k.Type == idr.TextNode && strings.TrimSpace(k.Data) != "" {
				hasTx = true
			}
			walk(k)
		}
		if hasEl && hasTx && n.Type == idr.ElementNode {
			e.mixed = true
		}
	}
	walk(doc)
	matchAll := func(xp string) (ns []*idr.Node, err error) {
		defer func() {
			if p := recover(); p != nil {
				err = fmt.Errorf("%w: %v", errC04EnginePanic, p)
			}
		}()
		return idr.MatchAll(doc, xp)
	}
	pList, err := matchAll(c.Path)
	if err != nil {
		return e, err
	}
	fList, err := matchAll(c.xpath())
	if err != nil {
		return e, err
	}
	inP, inF := map[*idr.Node]bool{}, map[*idr.Node]bool{}
	for _, n := range pList {
		inP[n] = true
	}
	for _, n := range fList {
		inF[n] = true
	}
	e.nP = len(inP)
	// outermost members of P in document order
	byOrder := make([]*idr.Node, len(order))
	for n, i := range order {
		byOrder[i] = n
	}
	var outer []*idr.Node
	for _, n := range byOrder {
		if !inP[n] {
			continue
		}
		if n.Type != idr.ElementNode {
			return e, fmt.Errorf("target path selects a %s", n.Type)
		}
		isOuter := true
		for a := n.Parent; a != nil; a = a.Parent {
			if inP[a] {
				isOuter = false
				break
			}
		}
		if isOuter {
			outer = append(outer, n)
		} else {
			e.nested = true
		}
	}
	e.nOuter = len(outer)
	parents := map[*idr.Node]int{}
	sawRejected := false
	for _, n := range outer {
		parents[n.Parent]++
		if parents[n.Parent] >= 2 {
			e.siblings = true
		}
		if inF[n] {
			if sawRejected {
				e.rejThenAcc = true
			}
			e.expected = append(e.expected, c04Deliver(n))
		} else {
			sawRejected = true
		}
		// known-defect model: the filter is evaluated from the root, so a descendant that is
		// selected by the full xpath makes the outer candidate pass
		hit := false
		var sub func(m *idr.Node)
		sub = func(m *idr.Node) {
			if inF[m] {
				hit = true
			}
			for k := m.FirstChild; k != nil && !hit; k = k.NextSibling {
				sub(k)
			}
		}
		sub(n)
		if hit {
			e.defect = append(e.defect, c04Deliver(n))
		}
	}
	return e, nil
}

func c04Stream(c c04Case) ([]c04Delivery, error) {
	type reader interface {
		Read() (*idr.Node, error)
		Release(*idr.Node)
	}
	var r reader
	var err error
	if c.Format == "xml" {
		r, err = idr.NewXMLStreamReader(strings.NewReader(c.Doc), c.xpath())
	} else {
		r, err = idr.NewJSONStreamReader(strings.NewReader(c.Doc), c.xpath())
	}
	if err != nil {
		return nil, fmt.Errorf("reader construction: %v", err)
	}
	var out []c04Delivery
	for i := 0; i < len(c.Doc)+8; i++ {
		n, err := r.Read()
		if err == io.EOF {
			return out, nil
		}
		if err != nil {
			return out, fmt.Errorf("Read %d: %v", i, err)
		}
		if n == nil {
			return out, fmt.Errorf("Read %d returned nil node and nil error", i)
		}
		out = append(out, c04Deliver(n))
		if c.Release {
			r.Release(n)
		}
	}
	return out, fmt.Errorf("no io.EOF after %d Reads", len(c.Doc)+8)
}

func c04Schema(c c04Case) string {
	s := map[string]interface{}{
		"parser_settings": map[string]interface{}{"version": "omni.2.1", "file_format_type": c.Format},
		"transform_declarations": map[string]interface{}{
			"FINAL_OUTPUT": map[string]interface{}{"xpath": c.xpath(), "custom_func": map[string]interface{}{"name": "copy"},
				"no_trim": true, "keep_empty_or_null": true},
		},
	}
	b, _ := json.Marshal(s)
	return string(b)
}

func c04PredClass(p string) string {
	switch {
	case p == "":
		return "pred=none"
	case strings.Contains(p, " and ") || strings.Contains(p, " or "):
		return "pred=boolean"
	case strings.Count(p, "[") > 1:
		return "pred=nested-brackets"
	case strings.Contains(p, ".//"):
		return "pred=descendant"
	case strings.Contains(p, "@"):
		return "pred=attribute"
	case strings.Contains(p, "count("):
		return "pred=count"
	case strings.Contains(p, "<") || strings.Contains(p, ">"):
		return "pred=numeric"
	case strings.Contains(p, "(.") || strings.HasPrefix(p, "[.") || strings.Contains(p, "text()"):
		return "pred=text"
	case strings.Contains(p, "name()"):
		return "pred=name"
	}
	return "pred=child"
}

func checkC04(c c04Case) obs.Result {
	doc, err := c04Whole(c)
	if err != nil {
		return obs.Violationf("well-formed %s document rejected when loaded completely: %v\ndoc=%q", c.Format, err, c.Doc)
	}
	if msg := c04Faithful(c, doc); msg != "" {
		if strings.Contains(msg, "prefix differs") && obs.KnownOpen("c08-xml-one-uri-two-prefixes") {
			// open known finding of C08 (one namespace URI under two prefixes): the whole-document side cannot serve as reference here
			return obs.Result{Excluded: "whole-document tree shows the known C08 prefix defect"}
		}
		return obs.Violationf("the completely loaded tree does not represent the document (C08's subject; C04 cannot be judged on it): %s\ndoc=%q", msg, c.Doc)
	}
	exp, err := c04Expected(c, doc)
	if errors.Is(err, errC04EnginePanic) {
		return obs.Result{Excluded: "whole-document evaluation of the xpath panics in the xpath engine (number literal compared with non-numeric text)"}
	}
	if err != nil {
		return obs.Result{Excluded: "xpath outside the stream-target class: " + err.Error()}
	}
	classes := []string{"format=" + c.Format, c04PredClass(c.Pred)}
	switch {
	case strings.Contains(c.Path, "//") || strings.Contains(c.Path, "descendant"):
		classes = append(classes, "path=descendant")
	default:
		classes = append(classes, "path=absolute")
	}
	if strings.Contains(c.Path, "*") {
		classes = append(classes, "path=wildcard")
	}
	if strings.Contains(c.Path, "::") {
		classes = append(classes, "notation=unabbreviated-axis")
	}
	if x := c.xpath(); strings.TrimSpace(x) != x {
		classes = append(classes, "notation=padded")
	}
	if exp.nested {
		classes = append(classes, "nested-candidate")
	}
	if exp.rejThenAcc {
		classes = append(classes, "rejected-then-accepted")
	}
	if exp.siblings {
		classes = append(classes, "candidates-share-parent")
	}
	if exp.mixed {
		classes = append(classes, "mixed-content")
	}
	switch n := len(exp.expected); {
	case n == 0:
		classes = append(classes, "deliveries=0")
	case n == 1:
		classes = append(classes, "deliveries=1")
	default:
		classes = append(classes, "deliveries>=2")
	}
	if exp.nP == 0 {
		classes = append(classes, "path-matches-nothing")
	}
	nonTrivial := exp.nP >= 2 && (exp.nested || exp.rejThenAcc || exp.siblings)
	expKeys, defKeys := c04Keys(exp.expected), c04Keys(exp.defect)
	defectDiffers := !c04SameSeq(expKeys, defKeys)
	known := func() obs.Result {
		return obs.Result{Known: c04KnownNested, NonTrivial: nonTrivial, Classes: append(classes, "known:nested-candidate-defect")}
	}

	// 1. the idr stream reader itself
	got, err := c04Stream(c)
	if err != nil {
		return obs.Violationf("streaming %s with xpath %q: %v (after %d deliveries; %d expected)\ndoc=%q", c.Format, c.xpath(), err, len(got), len(exp.expected), c.Doc)
	}
	gotKeys := c04Keys(got)
	if !c04SameSeq(expKeys, gotKeys) {
		if defectDiffers && c04SameSeq(defKeys, gotKeys) && obs.KnownOpen(c04KnownNested) {
			return known()
		}
		return obs.Violationf("stream reader (%s) with xpath %q does not deliver what the xpath selects on the whole document: %s\ndoc=%q",
			c.Format, c.xpath(), c04DescribeDiff(expKeys, gotKeys), c.Doc)
	}

	// 2. the same through the file format: xpath on FINAL_OUTPUT, `copy` transform
	sch, err := run.NewSchema(c04Schema(c))
	if err != nil {
		return obs.Violationf("schema with FINAL_OUTPUT xpath %q rejected: %v", c.xpath(), err)
	}
	steps, err := run.Transcript(sch, strings.NewReader(c.Doc), run.Opts{InputLen: len(c.Doc)})
	if err != nil {
		return obs.Violationf("transform over %s with xpath %q: %v\ndoc=%q", c.Format, c.xpath(), err, c.Doc)
	}
	canonAll := func(ds []c04Delivery) []string {
		out := make([]string, 0, len(ds)+1)
		for _, d := range ds {
			s, err := run.Canon([]byte(d.JSON))
			if err != nil {
				s = "UNCANONICAL:" + d.JSON
			}
			out = append(out, "rec "+s)
		}
		return append(out, "term eof")
	}
	var gotT []string
	for _, s := range steps {
		switch s.Kind {
		case "rec":
			gotT = append(gotT, "rec "+s.JSON)
		default:
			gotT = append(gotT, s.Kind+" "+s.ErrClass+func() string {
				if s.ErrClass == "eof" {
					return ""
				}
				return " " + s.Err
			}())
		}
	}
	expT := canonAll(exp.expected)
	if !c04SameSeq(expT, gotT) {
		if defectDiffers && c04SameSeq(canonAll(exp.defect), gotT) && obs.KnownOpen(c04KnownNested) {
			return known()
		}
		return obs.Violationf("%s file format with FINAL_OUTPUT xpath %q and copy: records differ from the whole-document selection: %s\ndoc=%q",
			c.Format, c.xpath(), c04DescribeDiff(expT, gotT), c.Doc)
	}
	return obs.OK(nonTrivial, classes...)
}

func TestC04(t *testing.T) {
	obs.Run(t, "C04", genC04, checkC04)
}
