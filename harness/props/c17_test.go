package props

// C17 — Memory retained while streaming does not grow with records delivered.
// size(i) = number of nodes of the whole tree reachable (via Parent links) from the i-th delivered
// record; it must be bounded independently of i, and the 2k-record input must show the same maximum
// as the k-record input.

import (
	"bytes"
	"fmt"
	"runtime"
	"strings"
	"testing"

	"github.com/jf-tech/omniparser/errs"
	"github.com/jf-tech/omniparser/idr"
	"github.com/jf-tech/omniparser/transformctx"
	"pgregory.net/rapid"

	"verifharness/gen"
	"verifharness/obs"
	"verifharness/run"
)

type c17Case struct {
	// Nest, when non-empty, selects the nested-candidates arm (xml or json by NestJSON): the input repeats the listed
	// kinds of elements named c under a fixed root, K times: 0 = <c flag=y/> (delivered), 1 = <c flag=n/> (rejected),
	// 2 = <c flag=n><c flag=y/></c> (outermost is the candidate and is rejected as a whole), 3 = <c flag=y><c flag=n/></c>
	// (delivered as a whole); target xpath //c[@flag='y'] (xml) resp. //list/*[flag='y'] over list elements that may carry a nested list (json).
	Nest     []int     `json:"nest,omitempty"`
	NestJSON bool      `json:"nest_json,omitempty"`
	Shape    gen.Shape `json:"shape"`
	Pool     []gen.Rec `json:"pool"` // the input is the pool cycled K times
	K        int       `json:"k"`
	Sep      int       `json:"sep"` // 0 none, 1 insignificant separator (blank line / whitespace) between records
	// Heap selects the live-heap arm: the pool is cycled 5*K times and the live heap (after two forced collections) is
	// sampled when K and when 5*K records have been read; "what a Transform retains" must not have grown by more than
	// c17HeapSlack in between (a leak of 64 bytes per record over the shortest run is above that, the unchanged code's
	// noise 50x below).
	Heap bool `json:"heap,omitempty"`
}

const c17HeapSlack = 64 << 10

func genC17(t *rapid.T) c17Case {
	c := c17Case{}
	if rapid.IntRange(0, 7).Draw(t, "nestedArm") == 0 {
		c.Nest = rapid.SliceOfN(rapid.IntRange(0, 3), 1, 5).Draw(t, "nestKinds")
		c.Nest = append(c.Nest, 0) // at least one delivered kind
		c.NestJSON = rapid.Bool().Draw(t, "nestJSON")
		c.K = rapid.SampledFrom([]int{50, 100, 400, 400, 2000}).Draw(t, "nestK")
		return c
	}
	heap := rapid.IntRange(0, 6).Draw(t, "heapArm") == 0
	c.Shape = gen.DrawShape(t, gen.ShapeOpts{NoJS: true})
	c.Shape.Grouped = false // a wrapper element per record is not "a fixed set of ancestors": out of C17's domain
	if heap {
		// per-record features that make a reader keep private state: namespace declarations on the record elements,
		// multi-line envelopes
		switch c.Shape.Format {
		case "xml":
			c.Shape.XMLNS = rapid.SampledFrom([]int{2, 3, 4, 2, 0}).Draw(t, "heapXMLNS")
			if c.Shape.XMLNS == 4 {
				c.Shape.Envelope = false
			}
		case "json":
			c.Shape.JSONKeyed = rapid.Bool().Draw(t, "heapJSONKeyed")
		case "fixedlength2":
			if rapid.Bool().Draw(t, "heapMultiRow") {
				c.Shape.Variant, c.Shape.NSub, c.Shape.SubW = 1, 0, nil
				c.Shape.FLRows = rapid.SampledFrom([]int{2, 3}).Draw(t, "heapFLRows")
			}
		}
	}
	if c.Shape.IntCol == 0 && rapid.Bool().Draw(t, "dropIntCol") {
		c.Shape.IntCol = -1
	}
	c.Shape.Filter = c.Shape.IntCol != 0 && rapid.IntRange(0, 2).Draw(t, "withFilter") > 0
	if c.Shape.Format == "xml" && rapid.IntRange(0, 3).Draw(t, "posFilter") == 0 {
		// a positional predicate instead of the value filter: every candidate passes on the unchanged code (earlier
		// candidates are gone when the next one is judged)
		c.Shape.PosFilter, c.Shape.Filter = true, false
	}
	c.Shape.QuoteInFilter = c.Shape.Filter && c.Shape.Format != "edi" && rapid.Bool().Draw(t, "quoteInFilter17")
	c.Pool = gen.DrawRecs(t, c.Shape, "p", 1, 4, gen.ValueOpts{MaxLen: 4})
	// make sure the filter (if any) rejects candidates between deliveries
	if c.Shape.Filter {
		c.Pool = append(c.Pool, gen.DrawRec(t, c.Shape, "skip", 2, gen.ValueOpts{MaxLen: 4}))
	}
	ks := []int{50, 60, 100, 100, 150, 400, 400, 400, 400, 400, 400, 400, 400, 400, 400, 400, 400, 400, 400, 400, 400, 400, 400, 400, 400}
	ks = append(ks, ks...)
	ks = append(ks, 2000, 2000, 2000, 2000, 20000)
	c.K = ks[rapid.IntRange(0, len(ks)-1).Draw(t, "kIdx")]
	c.Sep = rapid.IntRange(0, 1).Draw(t, "sep")
	if heap {
		c.Heap = true
		c.K = rapid.SampledFrom([]int{1000, 1500, 2500}).Draw(t, "heapK")
		if c.Shape.Format == "xml" {
			c.Sep = 0 // whitespace between xml records is the open finding C17-F1, measured by the tree-size arm
		}
	}
	return c
}

func (c c17Case) render(k int, sep int) []byte {
	recs := make([]gen.Rec, 0, k)
	for i := 0; i < k; i++ {
		recs = append(recs, c.Pool[i%len(c.Pool)])
	}
	pro, parts, epi := c.Shape.RenderParts(recs)
	s := ""
	if sep == 1 {
		switch c.Shape.Format {
		case "csv", "csv2", "fixed-length", "fixedlength2":
			s = "\n"
		case "xml", "json":
			s = "\n  "
		case "edi":
			if c.Shape.EDI.IgnCRLF || strings.Contains(c.Shape.EDI.Seg, "\n") {
				s = "\n"
			}
		}
	}
	var b bytes.Buffer
	b.WriteString(pro)
	for _, p := range parts {
		b.WriteString(p)
		b.WriteString(s)
	}
	b.WriteString(epi)
	return b.Bytes()
}

func c17Count(n *idr.Node) int {
	cnt := 1
	for c := n.FirstChild; c != nil; c = c.NextSibling {
		cnt += c17Count(c)
	}
	return cnt
}

// c17Sizes returns, per delivered record, the size of the tree reachable from it and the record's own size.
func c17Sizes(schema string, in []byte) (sizes []int, recMax int, filtered bool, err error) {
	sch, err := run.NewSchema(schema)
	if err != nil {
		return nil, 0, false, err
	}
	tr, err := sch.NewTransform("input", bytes.NewReader(in), &transformctx.Ctx{})
	if err != nil {
		return nil, 0, false, err
	}
	for reads := 0; reads < 2*len(in)+64; reads++ {
		_, rerr := tr.Read()
		if rerr != nil {
			if errs.IsErrTransformFailed(rerr) {
				continue
			}
			return sizes, recMax, filtered, nil
		}
		rr, _ := tr.RawRecord()
		n, ok := rr.Raw().(*idr.Node)
		if !ok {
			return nil, 0, false, fmt.Errorf("raw record is not an *idr.Node")
		}
		top := n
		depth := 0
		for top.Parent != nil && depth < 1000 {
			top = top.Parent
			depth++
		}
		sizes = append(sizes, c17Count(top))
		if rs := c17Count(n); rs > recMax {
			recMax = rs
		}
	}
	return nil, 0, false, fmt.Errorf("no terminal result")
}

func c17Max(xs []int) int {
	m := 0
	for _, x := range xs {
		if x > m {
			m = x
		}
	}
	return m
}

func (c c17Case) verdict(sep int) string {
	schema := c.Shape.Schema()
	in1 := c.render(c.K, sep)
	s1, recMax, _, err := c17Sizes(schema, in1)
	if err != nil {
		return "EXCLUDED:" + err.Error()
	}
	if len(s1) == 0 {
		return ""
	}
	head := s1
	if len(head) > 8 {
		head = head[:8]
	}
	bound := c17Max(head) + recMax
	for i, sz := range s1 {
		if sz > bound {
			return fmt.Sprintf("tree reachable from delivered record #%d has %d nodes; bound from the first 8 deliveries + one record = %d (sizes start %v, k=%d)", i, sz, bound, head, c.K)
		}
	}
	in2 := c.render(2*c.K, sep)
	s2, _, _, err := c17Sizes(schema, in2)
	if err != nil {
		return "EXCLUDED:" + err.Error()
	}
	if c17Max(s2) != c17Max(s1) {
		return fmt.Sprintf("maximum reachable tree size grows with the record count: %d nodes for k=%d, %d nodes for k=%d", c17Max(s1), c.K, c17Max(s2), 2*c.K)
	}
	return ""
}

func (c c17Case) nestRender(k int) (schema string, in []byte) {
	var b strings.Builder
	if c.NestJSON {
		schema = `{"parser_settings":{"version":"omni.2.1","file_format_type":"json"},"transform_declarations":{"FINAL_OUTPUT":{"xpath":"//list/*[flag='y']","object":{"f":{"xpath":"flag"}}}}}`
		b.WriteString(`{"hdr":"h","list":[`)
		for i := 0; i < k; i++ {
			if i > 0 {
				b.WriteString(",")
			}
			switch c.Nest[i%len(c.Nest)] {
			case 0:
				b.WriteString(`{"flag":"y","v":"1"}`)
			case 1:
				b.WriteString(`{"flag":"n","v":"2"}`)
			case 2:
				b.WriteString(`{"flag":"n","list":[{"flag":"y","v":"3"}]}`)
			default:
				b.WriteString(`{"flag":"y","list":[{"flag":"n","v":"4"}]}`)
			}
		}
		b.WriteString(`]}`)
		return schema, []byte(b.String())
	}
	schema = `{"parser_settings":{"version":"omni.2.1","file_format_type":"xml"},"transform_declarations":{"FINAL_OUTPUT":{"xpath":"//c[@flag='y']","object":{"f":{"xpath":"@flag"}}}}}`
	b.WriteString(`<root><hdr>h</hdr>`)
	for i := 0; i < k; i++ {
		switch c.Nest[i%len(c.Nest)] {
		case 0:
			b.WriteString(`<c flag="y">1</c>`)
		case 1:
			b.WriteString(`<c flag="n">2</c>`)
		case 2:
			b.WriteString(`<c flag="n"><c flag="y">3</c></c>`)
		default:
			b.WriteString(`<c flag="y"><c flag="n">4</c></c>`)
		}
	}
	b.WriteString(`</root>`)
	return schema, []byte(b.String())
}

func checkC17Nested(c c17Case) obs.Result {
	classes := []string{"arm=nested-candidates"}
	if c.NestJSON {
		classes = append(classes, "format=json")
	} else {
		classes = append(classes, "format=xml")
	}
	schema, in1 := c.nestRender(c.K)
	s1, recMax, _, err := c17Sizes(schema, in1)
	if err != nil {
		return obs.Violationf("nested-candidates arm: %v", err)
	}
	delivered := 0
	for i := 0; i < c.K; i++ {
		if k := c.Nest[i%len(c.Nest)]; k == 0 || k == 3 {
			delivered++
		}
	}
	// (how many are delivered is C04's subject; whatever is delivered, what stays reachable must be bounded)
	if len(s1) == 0 {
		return obs.OK(false, classes...)
	}
	head := s1
	if len(head) > 8 {
		head = head[:8]
	}
	bound := c17Max(head) + recMax
	for i, sz := range s1 {
		if sz > bound {
			return obs.Violationf("nested candidates (kinds %v, json=%v): tree reachable from delivered record #%d has %d nodes; bound %d (sizes start %v, k=%d)", c.Nest, c.NestJSON, i, sz, bound, head, c.K)
		}
	}
	_, in2 := c.nestRender(2 * c.K)
	s2, _, _, err := c17Sizes(schema, in2)
	if err != nil {
		return obs.Violationf("nested-candidates arm: %v", err)
	}
	if c17Max(s2) != c17Max(s1) {
		return obs.Violationf("nested candidates (kinds %v, json=%v): maximum reachable tree size grows with the record count: %d for k=%d, %d for k=%d", c.Nest, c.NestJSON, c17Max(s1), c.K, c17Max(s2), 2*c.K)
	}
	rejected := false
	for _, k := range c.Nest {
		if k == 1 || k == 2 {
			rejected = true
		}
	}
	return obs.OK(delivered >= 50 && rejected, classes...)
}

// c17LiveHeap: bytes of live heap objects after two forced collections (the second one empties sync.Pool victims).
func c17LiveHeap() uint64 {
	runtime.GC()
	runtime.GC()
	var ms runtime.MemStats
	runtime.ReadMemStats(&ms)
	return ms.HeapAlloc
}

func checkC17Heap(c c17Case, classes []string) obs.Result {
	classes = append(classes, "arm=live-heap")
	sch, err := run.NewSchema(c.Shape.Schema())
	if err != nil {
		return obs.Violationf("generated schema rejected: %v", err)
	}
	in := c.render(5*c.K, c.Sep)
	tr, err := sch.NewTransform("input", bytes.NewReader(in), &transformctx.Ctx{})
	if err != nil {
		return obs.Result{Excluded: "run failed: " + err.Error()}
	}
	// live heap after K, 2K, 3K ... Reads and after the terminal result (the Transform still alive)
	var hs []uint64
	var at []int
	reads, ok := 0, 0
	for ; reads < 2*len(in)+64; reads++ {
		if reads > 0 && reads%c.K == 0 {
			hs, at = append(hs, c17LiveHeap()), append(at, reads)
		}
		_, rerr := tr.Read()
		if rerr != nil && !errs.IsErrTransformFailed(rerr) {
			break
		}
		if rerr == nil {
			ok++
		}
	}
	if len(at) > 0 && reads-at[len(at)-1] >= c.K/2 {
		hs, at = append(hs, c17LiveHeap()), append(at, reads)
	}
	runtime.KeepAlive(tr)
	runtime.KeepAlive(in)
	if len(hs) < 3 {
		// fewer than 3 samples (filtered candidates are no results): measured too little
		return obs.OK(false, append(classes, "heap-not-sampled")...)
	}
	obs.Count("heap_arm_reads", reads)
	mid := len(hs) / 2
	grow := func(a, b uint64) uint64 {
		if b > a {
			return b - a
		}
		return 0
	}
	g1, g2, total := grow(hs[0], hs[mid]), grow(hs[mid], hs[len(hs)-1]), grow(hs[0], hs[len(hs)-1])
	obs.Count("heap_arm_growth_bytes", int(total))
	if total > 16<<10 {
		obs.Count("heap_arm_growth_over_16KiB", 1)
	}
	// a retention per record grows in BOTH halves; something allocated once (a cache filling up, a pool, the runtime)
	// shows in one of them
	if total > c17HeapSlack && g1 > c17HeapSlack/3 && g2 > c17HeapSlack/3 {
		return obs.Violationf("live heap held while streaming keeps growing: %v bytes after %v Reads (+%d in the first half, +%d in the second, %d bytes per Read; slack %d): the Transform retains something per delivered record\nshape %+v pool=%+v",
			hs, at, g1, g2, total/uint64(at[len(at)-1]-at[0]), c17HeapSlack, c.Shape, c.Pool)
	}
	return obs.OK(ok >= 1000, classes...)
}

func checkC17(c c17Case) obs.Result {
	if len(c.Nest) > 0 {
		return checkC17Nested(c)
	}
	classes := []string{"format=" + c.Shape.Format, fmt.Sprintf("sep=%d", c.Sep)}
	if c.Heap {
		return checkC17Heap(c, classes)
	}
	if c.K >= 2000 {
		classes = append(classes, "k>=2000")
	}
	hasSkip := false
	if c.Shape.Filter && c.Shape.IntCol != 0 {
		for _, r := range c.Pool {
			if strings.HasPrefix(r.Vals[0], c.Shape.SkipToken()) {
				hasSkip = true
			}
		}
	}
	if hasSkip {
		classes = append(classes, "filtered-candidates")
	}
	msg := c.verdict(c.Sep)
	if strings.HasPrefix(msg, "EXCLUDED:") {
		return obs.Result{Excluded: "run failed: " + strings.TrimPrefix(msg, "EXCLUDED:")}
	}
	if msg != "" {
		if obs.KnownOpen("c17-xml-whitespace-chardata-accumulates") && c.Shape.Format == "xml" && c.Sep == 1 && c.verdict(0) == "" {
			// the growth is exactly the whitespace character data between records, attached to the enclosing element
			return obs.Result{Known: "c17-xml-whitespace-chardata-accumulates", Classes: classes}
		}
		return obs.Violationf("%s\nshape %+v sep=%d pool=%+v", msg, c.Shape, c.Sep, c.Pool)
	}
	delivered := 0
	for i := 0; i < c.K; i++ {
		r := c.Pool[i%len(c.Pool)]
		if !(c.Shape.Filter && c.Shape.IntCol != 0 && strings.HasPrefix(r.Vals[0], c.Shape.SkipToken())) {
			delivered++
		}
	}
	return obs.OK(delivered >= 50 && hasSkip, classes...)
}

func TestC17(t *testing.T) {
	obs.Run(t, "C17", genC17, checkC17)
}
