package props

// C01 — Read/RawRecord result-stream contract (stateful: generated Read/RawRecord histories judged
// by a contract automaton written from the Transform interface comment and the property).

import (
	"bytes"
	"encoding/json"
	"errors"
	"fmt"
	"io"
	"reflect"
	"strings"
	"testing"
	"unicode/utf8"

	"github.com/jf-tech/omniparser"
	"github.com/jf-tech/omniparser/customfuncs"
	"github.com/jf-tech/omniparser/errs"
	"github.com/jf-tech/omniparser/extensions/omniv21"
	v21 "github.com/jf-tech/omniparser/extensions/omniv21/customfuncs"
	"github.com/jf-tech/omniparser/extensions/omniv21/fileformat"
	"github.com/jf-tech/omniparser/extensions/omniv21/samples/customfileformats/jsonlog/jsonlogformat"
	"github.com/jf-tech/omniparser/idr"
	"github.com/jf-tech/omniparser/schemahandler"
	"github.com/jf-tech/omniparser/transformctx"
	"pgregory.net/rapid"

	"verifharness/gen"
	"verifharness/obs"
)

// ---- scripted caller-supplied handler -------------------------------------------------------

type c01ScriptStep struct {
	Kind    int    `json:"kind"` // 0 ok, 1 continuable error, 2 fatal error, 3 io.EOF, 4 bytes together with a continuable error, 5 bytes together with a fatal error, 6 fatal error that wraps an ErrTransformFailed
	Payload string `json:"payload"`
}

type c01ContErr struct{ msg string }

func (e *c01ContErr) Error() string { return e.msg }

type c01FatalErr struct{ msg string }

func (e *c01FatalErr) Error() string { return e.msg }

type c01Raw struct{ v string }

func (r *c01Raw) Raw() interface{} { return r.v }
func (r *c01Raw) Checksum() string { return "sum-" + r.v }

type c01Ingester struct {
	script []c01ScriptStep
	pos    int
	calls  int
}

func (g *c01Ingester) Read() (schemahandler.RawRecord, []byte, error) {
	g.calls++
	if g.pos >= len(g.script) {
		return nil, nil, io.EOF
	}
	s := g.script[g.pos]
	g.pos++
	b, _ := json.Marshal(map[string]string{"v": s.Payload})
	switch s.Kind {
	case 0:
		return &c01Raw{v: s.Payload}, b, nil
	case 1:
		return nil, nil, &c01ContErr{msg: "continuable " + s.Payload}
	case 2:
		return nil, nil, &c01FatalErr{msg: "fatal " + s.Payload}
	case 3:
		return nil, nil, io.EOF
	case 6:
		return nil, nil, fmt.Errorf("giving up after too many bad records, last one: %w", errs.ErrTransformFailed("bad record "+s.Payload))
	case 4:
		return &c01Raw{v: s.Payload}, b, &c01ContErr{msg: "continuable-with-bytes " + s.Payload}
	default:
		return &c01Raw{v: s.Payload}, b, &c01FatalErr{msg: "fatal-with-bytes " + s.Payload}
	}
}

func (g *c01Ingester) IsContinuableError(err error) bool {
	_, ok := err.(*c01ContErr)
	return ok
}
func (g *c01Ingester) FmtErr(format string, args ...interface{}) error {
	return fmt.Errorf(format, args...)
}

type c01Handler struct{ script []c01ScriptStep }

func (h *c01Handler) NewIngester(_ *transformctx.Ctx, _ io.Reader) (schemahandler.Ingester, error) {
	return &c01Ingester{script: h.script}, nil
}

const c01ScriptedVersion = "verif.scripted"

// ---- case -----------------------------------------------------------------------------------

type c01Case struct {
	Mode   string          `json:"mode"` // real | scripted | jsonlog
	Shape  gen.Shape       `json:"shape"`
	Recs   []gen.Rec       `json:"recs"`
	Mal    malform         `json:"mal"`
	Script []c01ScriptStep `json:"script,omitempty"`
	Lines  []string        `json:"lines,omitempty"` // jsonlog input lines
	Ops    []int           `json:"ops"`             // 0 Read, 1 RawRecord, 2 RawRecord twice, 3 burst of three Reads
}

func genC01(t *rapid.T) c01Case {
	c := c01Case{}
	c.Mode = rapid.SampledFrom([]string{"real", "real", "real", "real", "real", "real", "scripted", "scripted", "scripted", "jsonlog"}).Draw(t, "mode")
	nrec := 0
	switch c.Mode {
	case "real":
		c.Shape = gen.DrawShape(t, gen.ShapeOpts{AllowReplaceQuotes: true})
		c.Recs = gen.DrawRecs(t, c.Shape, "r", 0, 8, gen.ValueOpts{})
		base := c.Shape.Render(c.Recs)
		if rapid.IntRange(0, 2).Draw(t, "malformedInput") > 0 {
			c.Mal.Kind = rapid.IntRange(1, 3).Draw(t, "malKind")
			c.Mal.Off = rapid.IntRange(0, len(base)).Draw(t, "malOff")
			c.Mal.B = rapid.SampledFrom([]byte{'"', '\n', '<', '{', 0xff, 0x00, '~', '*', ',', '}', ']', '&'}).Draw(t, "malByte")
			c.Mal.Ins = []byte(rapid.SampledFrom([]string{"\"", "\n\n", "<x>", "}{", "\xff\xfe", "~~", ",,,", "\r", "</rec>", "]", "</root>", "XYZ*1~"}).Draw(t, "malIns"))
		}
		nrec = len(c.Recs)
	case "scripted":
		n := rapid.IntRange(0, 8).Draw(t, "nscript")
		for i := 0; i < n; i++ {
			k := rapid.SampledFrom([]int{0, 0, 0, 1, 1, 2, 2, 3, 4, 5, 6}).Draw(t, fmt.Sprintf("sk%d", i))
			c.Script = append(c.Script, c01ScriptStep{Kind: k, Payload: fmt.Sprintf("p%d", i)})
		}
		nrec = n
	case "jsonlog":
		n := rapid.IntRange(0, 6).Draw(t, "nlines")
		for i := 0; i < n; i++ {
			c.Lines = append(c.Lines, rapid.SampledFrom([]string{
				`{"c0":"a","c1":1}`, `{"c0":"b"}`, ``, `{"c0":`, `garbage`, `{"c0":"x","c1":"notint"}`, `[1,2]`, `"str"`, `{"c0":"SKIP"}`,
			}).Draw(t, fmt.Sprintf("line%d", i)))
		}
		nrec = n
	}
	nops := rapid.IntRange(nrec+1, 4*nrec+20).Draw(t, "nops")
	for i := 0; i < nops; i++ {
		c.Ops = append(c.Ops, rapid.SampledFrom([]int{0, 0, 0, 1, 1, 2, 3}).Draw(t, fmt.Sprintf("op%d", i)))
	}
	return c
}

func (c c01Case) build() (omniparser.Transform, *c01Ingester, error) {
	switch c.Mode {
	case "scripted":
		h := &c01Handler{script: c.Script}
		var ing *c01Ingester
		ext := omniparser.Extension{CreateSchemaHandler: func(ctx *schemahandler.CreateCtx) (schemahandler.SchemaHandler, error) {
			if ctx.Header.ParserSettings.Version != c01ScriptedVersion {
				return nil, errs.ErrSchemaNotSupported
			}
			return h, nil
		}}
		sch, err := omniparser.NewSchema("scripted", strings.NewReader(`{"parser_settings":{"version":"verif.scripted","file_format_type":"scripted"}}`), ext)
		if err != nil {
			return nil, nil, err
		}
		tr, err := sch.NewTransform("input", strings.NewReader("ignored"), &transformctx.Ctx{})
		_ = ing
		return tr, nil, err
	case "jsonlog":
		schema := `{"parser_settings":{"version":"omni.2.1","file_format_type":"jsonlog"},"transform_declarations":{"FINAL_OUTPUT":{"xpath":".[c0!='SKIP']","object":{"c0":{"xpath":"c0"},"c1":{"xpath":"c1","type":"int"}}}}}`
		sch, err := omniparser.NewSchema("jsonlog", strings.NewReader(schema), omniparser.Extension{
			CreateSchemaHandler: omniv21.CreateSchemaHandler,
			CreateSchemaHandlerParams: &omniv21.CreateParams{
				CustomFileFormats: []fileformat.FileFormat{jsonlogformat.NewJSONLogFileFormat("jsonlog")},
			},
			CustomFuncs: customfuncs.Merge(customfuncs.CommonCustomFuncs, v21.OmniV21CustomFuncs),
		})
		if err != nil {
			return nil, nil, err
		}
		tr, err := sch.NewTransform("input", strings.NewReader(strings.Join(c.Lines, "\n")), &transformctx.Ctx{})
		return tr, nil, err
	default:
		sch, err := omniparser.NewSchema("schema", strings.NewReader(c.Shape.Schema()))
		if err != nil {
			return nil, nil, err
		}
		in := c.Mal.apply(c.Shape.Render(c.Recs))
		tr, err := sch.NewTransform("input", bytes.NewReader(in), &transformctx.Ctx{})
		return tr, nil, err
	}
}

func c01SameErr(a, b error) bool {
	if a == nil || b == nil {
		return a == b
	}
	ta, tb := reflect.TypeOf(a), reflect.TypeOf(b)
	if ta != tb {
		return false
	}
	if ta.Comparable() {
		return a == b
	}
	return a.Error() == b.Error()
}

func checkC01(c c01Case) obs.Result {
	classes := []string{"mode=" + c.Mode}
	if c.Mode == "real" {
		classes = append(classes, "format="+c.Shape.Format)
	}
	tr, _, err := c.build()
	if err != nil {
		if c.Mode == "real" && c.Mal.Kind != 0 {
			// NewTransform may reject an input whose first rune cannot be read
			return obs.OK(false, append(classes, "newtransform-rejected")...)
		}
		return obs.Violationf("cannot build transform: %v", err)
	}
	const (
		stFresh = iota
		stOK
		stFailed
		stTerminal
	)
	state := stFresh
	var lastErr error
	var lastBytes []byte
	readsAfterTerminal, rawAfterFail := 0, 0
	// every slice handed out is kept (not copied) together with a copy: a slice "representing one ingested and
	// transformed record" must still represent it after later Reads (no shared, reused output buffer)
	type kept struct{ live, copy []byte }
	var handedOut []kept
	terminalNonEOF := false
	hist := []string{}
	doRead := func() string {
		b, err := tr.Read()
		hist = append(hist, fmt.Sprintf("Read->(%q,%v)", b, err))
		if state == stTerminal {
			readsAfterTerminal++
			if b != nil || !c01SameErr(err, lastErr) {
				return fmt.Sprintf("after the terminal error %q a later Read returned (%q, %v) instead of repeating it", lastErr, b, err)
			}
			return ""
		}
		switch {
		case err == nil:
			if b == nil {
				return "Read returned (nil, nil)"
			}
			if !utf8.Valid(b) || !json.Valid(b) {
				return fmt.Sprintf("Read returned bytes that are not valid UTF-8 JSON: %q", b)
			}
			state, lastErr, lastBytes = stOK, nil, b
			handedOut = append(handedOut, kept{live: b, copy: append([]byte{}, b...)})
		case errs.IsErrTransformFailed(err):
			if b != nil {
				return fmt.Sprintf("Read returned bytes %q together with a per-record failure %v", b, err)
			}
			state, lastErr = stFailed, err
		default:
			if b != nil {
				return fmt.Sprintf("Read returned bytes %q together with the terminal error %v", b, err)
			}
			state, lastErr = stTerminal, err
			if err != io.EOF {
				terminalNonEOF = true
			}
		}
		return ""
	}
	doRaw := func(twice bool) string {
		rr, err := tr.RawRecord()
		hist = append(hist, fmt.Sprintf("RawRecord->(%v,%v)", rr != nil, err))
		switch state {
		case stFresh:
			if rr != nil || err == nil {
				return fmt.Sprintf("RawRecord before any Read returned (%v, %v); want an error", rr, err)
			}
		case stOK:
			if err != nil || rr == nil {
				return fmt.Sprintf("RawRecord after a successful Read returned (%v, %v)", rr, err)
			}
			if rr.Raw() == nil {
				return "RawRecord().Raw() is nil after a successful Read"
			}
			sum := rr.Checksum()
			if sum == "" {
				return "RawRecord().Checksum() is empty"
			}
			if twice {
				rr2, err2 := tr.RawRecord()
				if err2 != nil || rr2 == nil || rr2.Checksum() != sum {
					return fmt.Sprintf("second RawRecord call disagrees with the first: (%v,%v)", rr2, err2)
				}
			}
			if msg := c.describes(rr, lastBytes); msg != "" {
				return msg
			}
		case stFailed, stTerminal:
			if state == stFailed {
				rawAfterFail++
			}
			if rr != nil || !c01SameErr(err, lastErr) {
				return fmt.Sprintf("RawRecord after a failed Read (%v) returned (%v, %v); want that Read's error", lastErr, rr, err)
			}
		}
		return ""
	}
	// scripted handler: the handler decides what is continuable, so the class of every result before the terminal one
	// is known from the script (independently of errs.IsErrTransformFailed, which the contract automaton relies on)
	scriptPos := 0
	readOnce := doRead
	doRead = func() string {
		before := state
		msg := readOnce()
		if msg != "" || c.Mode != "scripted" || before == stTerminal {
			return msg
		}
		want := stTerminal // past the end of the script: io.EOF
		if scriptPos < len(c.Script) {
			switch c.Script[scriptPos].Kind {
			case 0:
				want = stOK
			case 1, 4:
				want = stFailed
			}
		}
		scriptPos++
		if state != want {
			names := map[int]string{stOK: "a record", stFailed: "a per-record failure", stTerminal: "a terminal error"}
			return fmt.Sprintf("scripted handler step %d: the ingester's result makes this Read %s, the Transform reported %s (error %v)", scriptPos, names[want], names[state], lastErr)
		}
		return ""
	}
	for i, op := range c.Ops {
		var msg string
		switch op {
		case 0:
			msg = doRead()
		case 1:
			msg = doRaw(false)
		case 2:
			msg = doRaw(true)
		case 3:
			for k := 0; k < 3 && msg == ""; k++ {
				msg = doRead()
			}
		}
		if msg != "" {
			tail := hist
			if len(tail) > 8 {
				tail = tail[len(tail)-8:]
			}
			return obs.Violationf("op %d: %s\nhistory tail: %v", i, msg, tail)
		}
	}
	for i, k := range handedOut {
		if !bytes.Equal(k.live, k.copy) {
			return obs.Violationf("the bytes returned by successful Read #%d were modified by later calls: returned %q, now %q", i+1, k.copy, k.live)
		}
	}
	obs.Count("reads_after_terminal", readsAfterTerminal)
	obs.Count("rawrecord_after_failed_read", rawAfterFail)
	if state == stTerminal {
		classes = append(classes, "reached-terminal")
	}
	if terminalNonEOF {
		classes = append(classes, "terminal-non-eof")
	}
	if readsAfterTerminal > 0 {
		classes = append(classes, "read-after-terminal")
	}
	if rawAfterFail > 0 {
		classes = append(classes, "raw-after-fail")
	}
	return obs.OK(readsAfterTerminal > 0 || rawAfterFail > 0, classes...)
}

// describes checks, where the schema makes it decidable, that the raw record is the record the
// last Read transformed: with the pass-through transform every emitted column equals the trimmed
// text of the raw node's child of the same name.
func (c c01Case) describes(rr schemahandler.RawRecord, out []byte) string {
	switch c.Mode {
	case "scripted":
		var m map[string]string
		if json.Unmarshal(out, &m) != nil || fmt.Sprint(rr.Raw()) != m["v"] {
			return fmt.Sprintf("RawRecord %v does not belong to the record just read %s", rr.Raw(), out)
		}
		return ""
	case "real":
		if c.Shape.Xform != 0 {
			return ""
		}
	default:
		return ""
	}
	n, ok := rr.Raw().(*idr.Node)
	if !ok {
		return "raw record of a built-in format is not an *idr.Node"
	}
	var m map[string]interface{}
	d := json.NewDecoder(bytes.NewReader(out))
	d.UseNumber()
	if d.Decode(&m) != nil {
		return ""
	}
	for i := 0; i < c.Shape.NCols; i++ {
		if i == c.Shape.IntCol {
			continue // the int cast changes the representation ("000" -> 0)
		}
		if c.Shape.Format == "xml" && c.Shape.XMLAttr && i == c.Shape.NCols-1 {
			continue // this column is an attribute of c0, not a child element of the record
		}
		name := fmt.Sprintf("c%d", i)
		v, present := m[name]
		if !present {
			continue
		}
		var texts []string
		for ch := n.FirstChild; ch != nil; ch = ch.NextSibling {
			if ch.Type == idr.ElementNode && ch.Data == name {
				// encoding/json writes every invalid UTF-8 byte as U+FFFD
				texts = append(texts, strings.TrimSpace(string([]rune(ch.InnerText()))))
			}
		}
		if len(texts) != 1 || texts[0] != fmt.Sprint(v) {
			return fmt.Sprintf("RawRecord does not describe the record just read: output %s=%v, raw record has %v (raw %s)", name, v, texts, idr.JSONify2(n))
		}
	}
	return ""
}

var _ = errors.New

func TestC01(t *testing.T) {
	obs.Run(t, "C01", genC01, checkC01)
}
