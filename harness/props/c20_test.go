package props

// C20 — JavaScript calls are isolated from each other and map values faithfully.
//
// Three kinds of cases: "seq" (one goroutine, up to 40 calls), "conc" (2..8 goroutines, each with its own
// list of calls; the check starts and joins them) and "stack" (a generated xml/json/edi schema whose
// FINAL_OUTPUT consists of javascript / javascript_with_context fields anchored at ".", ".." or "../..",
// run through NewSchema + Read). The oracle for every single call is the same script with the same
// arguments on a brand-new goja runtime created here, with `_node` = idr.JSONify2 of the node as it is at
// the time of the call: error <=> error, and equal JSON values otherwise (compared both with the fresh
// runtime's exported value and with the fresh runtime's own JSON.stringify of the result).

import (
	"bytes"
	"encoding/json"
	"fmt"
	"strconv"
	"strings"
	"sync"
	"testing"

	"github.com/dop251/goja"
	"github.com/jf-tech/omniparser/errs"
	v21 "github.com/jf-tech/omniparser/extensions/omniv21/customfuncs"
	"github.com/jf-tech/omniparser/idr"
	"github.com/jf-tech/omniparser/transformctx"
	"pgregory.net/rapid"

	"verifharness/gen"
	"verifharness/obs"
	"verifharness/run"
)

const c20KnownStale = "c20-node-json-cache-stale-for-changed-node"

type c20Stack struct {
	Shape  gen.Shape     `json:"shape"`
	Recs   []gen.Rec     `json:"recs"`
	Fields []gen.JSField `json:"fields"`
}

type c20Case struct {
	Mode    string         `json:"mode"` // seq | conc | stack
	Threads []gen.JSThread `json:"threads,omitempty"`
	Stack   *c20Stack      `json:"stack,omitempty"`
}

func genC20(t *rapid.T) c20Case {
	c := c20Case{}
	switch k := rapid.IntRange(0, 9).Draw(t, "mode"); {
	case k < 3:
		c.Mode = "stack"
		st := &c20Stack{}
		st.Shape = gen.DrawShape(t, gen.ShapeOpts{Formats: []string{"xml", "json", "edi"}, PlainOnly: true, NoIntCol: true, NoFilter: true})
		if st.Shape.Format == "json" && rapid.Bool().Draw(t, "numericLeaf") {
			// c0 is a JSON number (not a string): a leaf whose _node is a bare number
			st.Shape.IntCol = 0
		}
		st.Recs = gen.DrawRecs(t, st.Shape, "r", 1, 6, gen.ValueOpts{})
		st.Fields = gen.DrawJSFields(t, "f")
		if st.Shape.IntCol == 0 && len(st.Fields) > 0 {
			st.Fields[0].Ctx, st.Fields[0].XPath = true, "c0"
		}
		c.Stack = st
	case k < 6:
		c.Mode = "conc"
		g := rapid.IntRange(2, 8).Draw(t, "goroutines")
		for i := 0; i < g; i++ {
			c.Threads = append(c.Threads, gen.DrawJSThread(t, fmt.Sprintf("t%d", i), 8))
		}
	default:
		c.Mode = "seq"
		max := rapid.SampledFrom([]int{4, 8, 8, 16, 16, 40}).Draw(t, "maxCalls")
		c.Threads = []gen.JSThread{gen.DrawJSThread(t, "t0", max)}
	}
	return c
}

// ---------------------------------------------------------------------------------------------
// the reference: a brand-new runtime per call

type c20Outcome struct {
	Err     bool
	ErrText string
	JSON    string // json.Marshal of the exported result
	JSJSON  string // the runtime's own JSON.stringify of the result ("" when it yields undefined)
}

func (o c20Outcome) String() string {
	if o.Err {
		return "error(" + o.ErrText + ")"
	}
	return o.JSON
}

func c20Fresh(script string, args []gen.JSArg, nodeJSON *string) c20Outcome {
	vm := goja.New()
	for _, a := range args {
		_ = vm.Set(a.Name, a.Value())
	}
	if nodeJSON != nil {
		_ = vm.Set("_node", *nodeJSON)
	}
	v, err := vm.RunString(script)
	if err != nil {
		return c20Outcome{Err: true, ErrText: err.Error()}
	}
	// classify in JavaScript itself (not with the goja helpers the implementation uses)
	_ = vm.Set("__c20v", v)
	bad, err := vm.RunString("(__c20v === null || __c20v === undefined || (typeof __c20v === 'number' && !isFinite(__c20v)))")
	if err != nil {
		return c20Outcome{Err: true, ErrText: "HARNESS classify: " + err.Error()}
	}
	if bad.ToBoolean() {
		return c20Outcome{Err: true, ErrText: "result is " + v.String()}
	}
	o := c20Outcome{}
	b, err := json.Marshal(v.Export())
	if err != nil {
		o.JSON = "UNMARSHALABLE:" + err.Error()
	} else {
		o.JSON = string(b)
	}
	if s, err := vm.RunString("JSON.stringify(__c20v)"); err == nil && !goja.IsUndefined(s) {
		o.JSJSON = s.String()
	}
	return o
}

func c20NumEqual(a, b json.Number) bool {
	ia, ea := strconv.ParseInt(string(a), 10, 64)
	ib, eb := strconv.ParseInt(string(b), 10, 64)
	if ea == nil && eb == nil {
		return ia == ib
	}
	fa, ea := strconv.ParseFloat(string(a), 64)
	fb, eb := strconv.ParseFloat(string(b), 64)
	return ea == nil && eb == nil && fa == fb
}

func c20ValEqual(a, b interface{}) bool {
	switch x := a.(type) {
	case json.Number:
		y, ok := b.(json.Number)
		return ok && c20NumEqual(x, y)
	case []interface{}:
		y, ok := b.([]interface{})
		if !ok || len(x) != len(y) {
			return false
		}
		for i := range x {
			if !c20ValEqual(x[i], y[i]) {
				return false
			}
		}
		return true
	case map[string]interface{}:
		y, ok := b.(map[string]interface{})
		if !ok || len(x) != len(y) {
			return false
		}
		for k, v := range x {
			w, ok := y[k]
			if !ok || !c20ValEqual(v, w) {
				return false
			}
		}
		return true
	default:
		return a == b // string, bool, nil
	}
}

// c20JSONEqual compares two JSON texts as JSON values (numbers numerically, so -0 = 0 and 1e+21 = 1e21).
func c20JSONEqual(a, b string) bool {
	dec := func(s string) (interface{}, bool) {
		d := json.NewDecoder(strings.NewReader(s))
		d.UseNumber()
		var v interface{}
		if err := d.Decode(&v); err != nil || d.More() {
			return nil, false
		}
		return v, true
	}
	va, oka := dec(a)
	vb, okb := dec(b)
	return oka && okb && c20ValEqual(va, vb)
}

// c20Agrees says whether an observed outcome (error flag + JSON text of the result) is what the reference says.
func c20Agrees(want c20Outcome, gotErr bool, gotJSON string) bool {
	if want.Err || gotErr {
		return want.Err == gotErr
	}
	if !c20JSONEqual(want.JSON, gotJSON) {
		return false
	}
	return want.JSJSON == "" || c20JSONEqual(want.JSJSON, gotJSON)
}

// ---------------------------------------------------------------------------------------------
// direct calls (seq / conc)

type c20Mismatch struct {
	Thread, Call int
	Msg          string
	Known        bool
}

type c20ThreadStats struct {
	calls, probesOfEarlier, ctxCalls, changedNodeCalls, errors, badNameCalls int
}

func c20BuildNode(s gen.JSNodeSpec) *idr.Node {
	n := idr.CreateNode(idr.ElementNode, s.Name)
	for _, c := range s.Children {
		c20AddChild(n, c.Name, c.Text)
	}
	return n
}

func c20AddChild(n *idr.Node, name, text string) {
	e := idr.CreateNode(idr.ElementNode, name)
	idr.AddChild(n, e)
	idr.AddChild(e, idr.CreateNode(idr.TextNode, text))
}

func c20Mutate(n *idr.Node, op gen.JSNodeOp) {
	var kids []*idr.Node
	for c := n.FirstChild; c != nil; c = c.NextSibling {
		kids = append(kids, c)
	}
	switch op.Kind {
	case "settext":
		if len(kids) == 0 {
			c20AddChild(n, op.Name, op.Text)
			return
		}
		k := kids[op.Child%len(kids)]
		if k.FirstChild != nil {
			k.FirstChild.Data = op.Text
		}
	case "addchild":
		c20AddChild(n, op.Name, op.Text)
	case "dropchild":
		if len(kids) == 0 {
			c20AddChild(n, op.Name, op.Text)
			return
		}
		idr.RemoveAndReleaseTree(kids[op.Child%len(kids)])
	}
}

func c20FlatArgs(args []gen.JSArg) []interface{} {
	var out []interface{}
	for _, a := range args {
		out = append(out, a.Name, a.Value())
	}
	return out
}

// c20RunThread makes the calls of one goroutine. It stops at the first disagreement that is not the open
// known finding; disagreements with exactly the known shape are remembered (the last one is returned
// with Known set) and the remaining calls are still checked.
func c20RunThread(ti int, th gen.JSThread) (*c20Mismatch, c20ThreadStats) {
	var st c20ThreadStats
	var knownSeen *c20Mismatch
	nodes := make([]*idr.Node, len(th.Nodes))
	for i, s := range th.Nodes {
		nodes[i] = c20BuildNode(s)
	}
	defer func() {
		for _, n := range nodes {
			idr.RemoveAndReleaseTree(n)
		}
	}()
	history := map[int][]string{} // node index -> the node's JSON at each earlier _node call on it
	lastJSON := map[int]string{}
	setEarlier := map[string]bool{}
	for ci, c := range th.Calls {
		st.calls++
		var node *idr.Node
		if c.Ctx && c.Node >= 0 {
			node = nodes[c.Node]
			if c.Mutate != nil {
				c20Mutate(node, *c.Mutate)
			}
		}
		var nodeJSON *string
		if node != nil {
			j := idr.JSONify2(node)
			nodeJSON = &j
			st.ctxCalls++
			if prev, seen := lastJSON[c.Node]; seen && prev != j {
				st.changedNodeCalls++
			}
			lastJSON[c.Node] = j
		}
		own := map[string]bool{}
		for _, a := range c.Args {
			own[a.Name] = true
		}
		for _, p := range c.Probes {
			if p == "*" {
				for name := range setEarlier {
					if !own[name] {
						st.probesOfEarlier++
						break
					}
				}
			} else if setEarlier[p] && !own[p] {
				st.probesOfEarlier++
				break
			}
		}
		want := c20Fresh(c.Script, c.Args, nodeJSON)
		flat := c20FlatArgs(c.Args)
		if c.BadName > 0 && 2*(c.BadName-1) < len(flat) {
			flat[2*(c.BadName-1)] = 7 // not a string: the call is ill-formed and must fail as a whole
			want = c20Outcome{Err: true, ErrText: "argument name is not a string"}
			st.badNameCalls++
		}
		var got interface{}
		var err error
		if c.Ctx {
			got, err = v21.JavaScriptWithContext(nil, node, c.Script, flat...)
		} else {
			got, err = v21.JavaScript(nil, c.Script, flat...)
		}
		gotJSON := ""
		if err == nil {
			b, merr := json.Marshal(got)
			if merr != nil {
				gotJSON = "UNMARSHALABLE:" + merr.Error()
			} else {
				gotJSON = string(b)
			}
		} else {
			st.errors++
		}
		for _, a := range c.Args {
			setEarlier[a.Name] = true
		}
		if node != nil {
			setEarlier["_node"] = true
		}
		var earlier []string
		if nodeJSON != nil {
			earlier = history[c.Node]
			history[c.Node] = append(history[c.Node], *nodeJSON)
		}
		if c20Agrees(want, err != nil, gotJSON) {
			continue
		}
		m := &c20Mismatch{Thread: ti, Call: ci}
		gotText := gotJSON
		if err != nil {
			gotText = "error(" + err.Error() + ")"
		}
		m.Msg = fmt.Sprintf("goroutine %d call %d: script %q args %s ctx=%v node=%d: a brand-new runtime gives %s (JSON.stringify: %s), the call gave %s",
			ti, ci, c.Script, c20ArgsText(c.Args), c.Ctx, c.Node, want, want.JSJSON, gotText)
		if nodeJSON != nil {
			m.Msg += fmt.Sprintf("\n_node now = %s", *nodeJSON)
			for _, old := range earlier {
				old := old
				if old == *nodeJSON {
					continue
				}
				if c20Agrees(c20Fresh(c.Script, c.Args, &old), err != nil, gotJSON) {
					m.Msg += fmt.Sprintf("\n(the call's result is what the script yields for the content this node had at an EARLIER call: stale _node = %s)", old)
					m.Known = true
					break
				}
			}
		}
		if m.Known && obs.KnownOpen(c20KnownStale) {
			knownSeen = m
			continue
		}
		m.Known = false
		return m, st
	}
	return knownSeen, st
}

func c20ArgsText(args []gen.JSArg) string {
	var parts []string
	for _, a := range args {
		if a.Kind == "s" {
			parts = append(parts, fmt.Sprintf("%s=%q", a.Name, a.S))
		} else {
			parts = append(parts, fmt.Sprintf("%s=%s(%s)", a.Name, a.Lit, a.Kind))
		}
	}
	return "{" + strings.Join(parts, ", ") + "}"
}

func c20CheckThreads(c c20Case) obs.Result {
	ms := make([]*c20Mismatch, len(c.Threads))
	sts := make([]c20ThreadStats, len(c.Threads))
	if c.Mode == "seq" {
		for i, th := range c.Threads {
			ms[i], sts[i] = c20RunThread(i, th)
		}
	} else {
		var wg sync.WaitGroup
		start := make(chan struct{})
		for i := range c.Threads {
			wg.Add(1)
			go func(i int) {
				defer wg.Done()
				defer func() {
					if p := recover(); p != nil {
						ms[i] = &c20Mismatch{Thread: i, Msg: fmt.Sprintf("goroutine %d: panic: %v", i, p)}
					}
				}()
				<-start
				ms[i], sts[i] = c20RunThread(i, c.Threads[i])
			}(i)
		}
		close(start)
		wg.Wait()
	}
	var tot c20ThreadStats
	for _, s := range sts {
		tot.calls += s.calls
		tot.probesOfEarlier += s.probesOfEarlier
		tot.ctxCalls += s.ctxCalls
		tot.changedNodeCalls += s.changedNodeCalls
		tot.errors += s.errors
		tot.badNameCalls += s.badNameCalls
	}
	classes := []string{"mode=" + c.Mode}
	if c.Mode == "conc" {
		classes = append(classes, fmt.Sprintf("goroutines=%d", len(c.Threads)))
	}
	if tot.probesOfEarlier > 0 {
		classes = append(classes, "probe-of-earlier-arg")
	}
	if tot.changedNodeCalls > 0 {
		classes = append(classes, "changed-node-call")
	}
	if tot.ctxCalls > 0 {
		classes = append(classes, "context-call")
	}
	if tot.errors > 0 {
		classes = append(classes, "error-result")
	}
	if tot.badNameCalls > 0 {
		classes = append(classes, "ill-formed-argument-list")
	}
	nonTrivial := tot.probesOfEarlier > 0 || tot.changedNodeCalls > 0
	// verdict: the first mismatch in (goroutine, call) order; an unknown one wins over a known one
	var known *c20Mismatch
	for _, m := range ms {
		if m == nil {
			continue
		}
		if m.Known {
			if known == nil {
				known = m
			}
			continue
		}
		return obs.Violationf("%s", m.Msg)
	}
	if known != nil {
		return obs.Result{Known: c20KnownStale, Classes: classes, NonTrivial: nonTrivial}
	}
	obs.Count("c20_calls", tot.calls)
	obs.Count("c20_probes_of_earlier_args", tot.probesOfEarlier)
	obs.Count("c20_changed_node_calls", tot.changedNodeCalls)
	return obs.OK(nonTrivial, classes...)
}

// ---------------------------------------------------------------------------------------------
// through a schema (stack)

func c20ConstDecl(a gen.JSArg) map[string]interface{} {
	d := map[string]interface{}{"no_trim": true}
	switch a.Kind {
	case "i":
		d["const"], d["type"] = a.Lit, "int"
	case "f":
		d["const"], d["type"] = a.Lit, "float"
	case "b":
		d["const"], d["type"] = a.Lit, "boolean"
	default:
		d["const"] = a.S
	}
	return d
}

func c20StackSchema(st c20Stack) (string, error) {
	var doc map[string]interface{}
	if err := json.Unmarshal([]byte(st.Shape.Schema()), &doc); err != nil {
		return "", err
	}
	td, _ := doc["transform_declarations"].(map[string]interface{})
	fo, _ := td["FINAL_OUTPUT"].(map[string]interface{})
	if fo == nil {
		return "", fmt.Errorf("shape schema has no FINAL_OUTPUT")
	}
	fields := map[string]interface{}{}
	for _, f := range st.Fields {
		name := "javascript"
		if f.Ctx {
			name = "javascript_with_context"
		}
		args := []interface{}{map[string]interface{}{"const": f.Script, "no_trim": true}}
		for _, a := range f.Args {
			args = append(args, map[string]interface{}{"const": a.Name}, c20ConstDecl(a))
		}
		d := map[string]interface{}{
			"custom_func":        map[string]interface{}{"name": name, "args": args, "ignore_error": true},
			"no_trim":            true,
			"keep_empty_or_null": true,
		}
		if f.Wrap {
			anchor := f.XPath
			if anchor == "" {
				anchor = "."
			}
			fields[f.Name] = map[string]interface{}{"xpath": anchor, "object": map[string]interface{}{"v": d}, "keep_empty_or_null": true}
			continue
		}
		if f.XPath != "" {
			d["xpath"] = f.XPath
		}
		fields[f.Name] = d
	}
	fo["object"] = fields
	b, err := json.Marshal(doc)
	return string(b), err
}

func c20Anchor(rec *idr.Node, xp string) *idr.Node {
	switch xp {
	case "", ".":
		return rec
	case "..":
		return rec.Parent
	case "../..":
		if rec.Parent == nil {
			return nil
		}
		return rec.Parent.Parent
	case "c0":
		for k := rec.FirstChild; k != nil; k = k.NextSibling {
			if k.Type == idr.ElementNode && k.Data == "c0" {
				return k
			}
		}
		return nil
	}
	panic("unknown anchor " + xp)
}

func c20CheckStack(c c20Case) obs.Result {
	st := *c.Stack
	schema, err := c20StackSchema(st)
	if err != nil {
		return obs.Violationf("HARNESS: %v", err)
	}
	sch, err := run.NewSchema(schema)
	if err != nil {
		return obs.Violationf("generated schema rejected: %v\n%s", err, schema)
	}
	in := st.Shape.Render(st.Recs)
	tr, err := sch.NewTransform("input", bytes.NewReader(in), &transformctx.Ctx{})
	if err != nil {
		return obs.Violationf("NewTransform: %v", err)
	}
	classes := []string{"mode=stack", "format=" + st.Shape.Format}
	if st.Shape.Format == "json" && st.Shape.IntCol == 0 {
		for _, f := range st.Fields {
			if f.Ctx && f.XPath == "c0" {
				classes = append(classes, "stack:_node-of-a-number-leaf")
				break
			}
		}
	}
	history := map[int64][]string{} // node ID -> its JSON at each earlier record where a _node call used it
	lastJSON := map[int64]string{}
	setEarlier := map[string]bool{}
	probes, changedCalls, ancestorChanged, knownHit := 0, 0, 0, false
	for ri := range st.Recs {
		out, err := tr.Read()
		if err != nil {
			if errs.IsErrTransformFailed(err) {
				return obs.Violationf("record %d failed although every javascript field has ignore_error: %v\nschema %s\ninput %q", ri, err, schema, in)
			}
			return obs.Violationf("record %d: Read returned %v (input has %d records)\nschema %s\ninput %q", ri, err, len(st.Recs), schema, in)
		}
		raw, err := tr.RawRecord()
		if err != nil {
			return obs.Violationf("RawRecord after a successful Read: %v", err)
		}
		rec, ok := raw.Raw().(*idr.Node)
		if !ok || rec == nil {
			return obs.Violationf("HARNESS: raw record is not an *idr.Node")
		}
		var got map[string]json.RawMessage
		if err := json.Unmarshal(out, &got); err != nil {
			return obs.Violationf("record %d: output is not a JSON object: %s", ri, out)
		}
		// per anchor node: its JSON now
		type anchorInfo struct {
			json    *string
			id      int64
			changed bool
		}
		anchors := map[string]anchorInfo{}
		for _, xp := range []string{".", "..", "../..", "c0"} {
			n := c20Anchor(rec, xp)
			if n == nil {
				continue
			}
			j := idr.JSONify2(n)
			ai := anchorInfo{json: &j, id: n.ID}
			if prev, seen := lastJSON[n.ID]; seen && prev != j {
				ai.changed = true
			}
			anchors[xp] = ai
		}
		usedIDs := map[int64]string{}
		for _, f := range st.Fields {
			xp := f.XPath
			if xp == "" {
				xp = "."
			}
			ai, hasAnchor := anchors[xp]
			g, present := got[f.Name]
			if f.Wrap && hasAnchor {
				// {"v": value}
				var w map[string]json.RawMessage
				if !present || json.Unmarshal(g, &w) != nil || w == nil {
					return obs.Violationf("record %d field %s (%+v): want an object {\"v\": ...} evaluated at %q, got %s\nschema %s\ninput %q", ri, f.Name, f, xp, g, schema, in)
				}
				g, present = w["v"]
			}
			if !hasAnchor {
				// the anchor does not exist: the transform yields nothing, kept as null
				if present && string(g) != "null" {
					return obs.Violationf("record %d field %s: anchor %q does not exist, want null, got %s", ri, f.Name, f.XPath, g)
				}
				continue
			}
			var nodeJSON *string
			if f.Ctx {
				nodeJSON = ai.json
				usedIDs[ai.id] = *ai.json
				if ai.changed {
					changedCalls++
					if xp != "." {
						ancestorChanged++
					}
				}
			}
			own := map[string]bool{}
			for _, a := range f.Args {
				own[a.Name] = true
			}
			for _, p := range f.Probes {
				hit := false
				if p == "*" {
					for name := range setEarlier {
						if !own[name] {
							hit = true
						}
					}
				} else {
					hit = setEarlier[p] && !own[p]
				}
				if hit {
					probes++
					break
				}
			}
			want := c20Fresh(f.Script, f.Args, nodeJSON)
			gotErr := !present || string(g) == "null"
			if c20Agrees(want, gotErr, string(g)) {
				continue
			}
			msg := fmt.Sprintf("record %d field %s (%+v): a brand-new runtime gives %s (JSON.stringify: %s), the transform emitted %s",
				ri, f.Name, f, want, want.JSJSON, g)
			if nodeJSON != nil {
				msg += fmt.Sprintf("\n_node now = %s", *nodeJSON)
				stale := false
				for _, old := range history[ai.id] {
					old := old
					if old != *nodeJSON && c20Agrees(c20Fresh(f.Script, f.Args, &old), gotErr, string(g)) {
						msg += fmt.Sprintf("\n(the emitted value is what the script yields for the content this node had at an EARLIER record: stale _node = %s)", old)
						stale = true
						break
					}
				}
				if stale && obs.KnownOpen(c20KnownStale) {
					knownHit = true
					continue
				}
			}
			return obs.Violationf("%s\nschema %s\ninput %q", msg, schema, in)
		}
		for id, j := range usedIDs {
			history[id] = append(history[id], j)
			lastJSON[id] = j
		}
		for _, f := range st.Fields {
			for _, a := range f.Args {
				setEarlier[a.Name] = true
			}
			if f.Ctx {
				setEarlier["_node"] = true
			}
		}
	}
	if _, err := tr.Read(); err == nil {
		return obs.Violationf("more records than the input has (%d)\nschema %s\ninput %q", len(st.Recs), schema, in)
	}
	if probes > 0 {
		classes = append(classes, "probe-of-earlier-arg")
	}
	if changedCalls > 0 {
		classes = append(classes, "changed-node-call")
	}
	if ancestorChanged > 0 {
		classes = append(classes, "ancestor-changed-between-records")
	}
	nonTrivial := probes > 0 || changedCalls > 0
	if knownHit {
		return obs.Result{Known: c20KnownStale, Classes: classes, NonTrivial: nonTrivial}
	}
	obs.Count("c20_stack_records", len(st.Recs))
	obs.Count("c20_changed_node_calls", changedCalls)
	return obs.OK(nonTrivial, classes...)
}

// c20Scrub removes the pool's argument names from the global object of the runtime(s) this goroutine is
// about to get from the pool. On an implementation that cleans up after each call there is nothing to
// remove; on one that leaks, it keeps what an EARLIER case left behind from deciding this case (a saved
// case must reproduce on its own), while leaks between the calls of this case stay fully visible.
func c20Scrub() {
	for i := 0; i < 3; i++ {
		_, _ = v21.JavaScript(nil, "delete this.a; delete this.b; delete this.c; delete this.d; delete this._node; 0")
	}
}

func checkC20(c c20Case) obs.Result {
	c20Scrub()
	switch c.Mode {
	case "seq", "conc":
		return c20CheckThreads(c)
	case "stack":
		if c.Stack == nil {
			return obs.Violationf("HARNESS: stack case without stack")
		}
		return c20CheckStack(c)
	}
	return obs.Violationf("HARNESS: unknown mode %q", c.Mode)
}

func TestC20(t *testing.T) {
	obs.Run(t, "C20", genC20, checkC20)
}
