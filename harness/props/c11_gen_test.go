package props

// C11 generators: a small XML document generator (attributes, default + prefixed namespaces, mixed
// content, CDATA, repeated and nested names, depth <= 7; no comments / PIs / XML declaration / xml:
// attributes) and a grammar-based XPath generator over the grammar of antchfx/xpath v1.1.11
// (all axes except namespace, name / * / text() / node() tests, prefixed names, positional and value
// predicates, boolean / string / number functions, unions, filter expressions).
//
// Everything here is c11-prefixed: package props is shared by all properties.

import (
	"fmt"
	"strings"

	"pgregory.net/rapid"
)

// ---------------------------------------------------------------------------------------------
// documents

type c11GNode struct {
	isText bool
	cdata  bool
	text   string

	prefix, name string
	decls        [][2]string // (prefix, uri); prefix "" = default namespace
	attrs        [][3]string // (prefix, local, value)
	kids         []*c11GNode
}

var (
	c11ElNames   = []string{"a", "a", "b", "b", "c"}
	c11AttrNames = []string{"k", "k", "m", "n"}
	c11Values    = []string{"x", "1", "2", "x y", " x ", "10", "a", "", "é", "<&>", "3", "x  y", "a\tb"}
	c11Texts     = []string{"x", "1", "2", "x y", " x ", "10", "a", " ", "\n  ", "é", "<&>", "k", "3", "\"'", "x  y", "a\tb"}
	c11URIs      = map[string]string{"p": "urn:p", "q": "urn:q", "": "urn:d"}
)

func c11Esc(s string, attr bool) string {
	var b strings.Builder
	for _, r := range s {
		switch {
		case r == '<':
			b.WriteString("&lt;")
		case r == '>':
			b.WriteString("&gt;")
		case r == '&':
			b.WriteString("&amp;")
		case r == '"' && attr:
			b.WriteString("&quot;")
		case r == '\n' && attr:
			b.WriteString("&#10;")
		default:
			b.WriteRune(r)
		}
	}
	return b.String()
}

func (n *c11GNode) qname() string {
	if n.prefix != "" {
		return n.prefix + ":" + n.name
	}
	return n.name
}

func (n *c11GNode) render(b *strings.Builder) {
	if n.isText {
		if n.cdata {
			b.WriteString("<![CDATA[" + n.text + "]]>")
		} else {
			b.WriteString(c11Esc(n.text, false))
		}
		return
	}
	b.WriteString("<" + n.qname())
	// namespace declarations and attributes are interleaved deterministically: declarations whose
	// index is even come first, the rest after the attributes (both DOMs keep declarations as attributes)
	for i, d := range n.decls {
		if i%2 == 0 {
			b.WriteString(c11DeclText(d))
		}
	}
	for _, a := range n.attrs {
		q := a[1]
		if a[0] != "" {
			q = a[0] + ":" + a[1]
		}
		fmt.Fprintf(b, ` %s="%s"`, q, c11Esc(a[2], true))
	}
	for i, d := range n.decls {
		if i%2 == 1 {
			b.WriteString(c11DeclText(d))
		}
	}
	if len(n.kids) == 0 {
		b.WriteString("/>")
		return
	}
	b.WriteString(">")
	for _, k := range n.kids {
		k.render(b)
	}
	b.WriteString("</" + n.qname() + ">")
}

func c11DeclText(d [2]string) string {
	if d[0] == "" {
		return fmt.Sprintf(` xmlns="%s"`, d[1])
	}
	return fmt.Sprintf(` xmlns:%s="%s"`, d[0], d[1])
}

type c11DocGen struct {
	t      *rapid.T
	budget int
	// what the document actually contains, for biasing the expressions
	qnames  map[string]bool
	attrs   map[string]bool
	maxDeep int
	useNS   bool
}

func (g *c11DocGen) element(depth int, scope []string, name string) *c11GNode {
	t := g.t
	g.budget--
	n := &c11GNode{name: name}
	if name == "" {
		n.name = rapid.SampledFrom(c11ElNames).Draw(t, "el")
	}
	scope = append([]string{}, scope...)
	has := func(p string) bool {
		for _, s := range scope {
			if s == p {
				return true
			}
		}
		return false
	}
	// namespace declarations: mostly at the root, sometimes deeper
	declProb := 12
	if depth == 0 {
		declProb = 1
	}
	for _, p := range []string{"p", "q", ""} {
		w := map[string]int{"p": 7, "q": 3, "": 2}[p]
		if g.useNS && !has(p) && rapid.IntRange(0, 9*declProb).Draw(t, "decl"+p) < w {
			n.decls = append(n.decls, [2]string{p, c11URIs[p]})
			scope = append(scope, p)
		}
	}
	// element prefix
	var prefixes []string
	for _, p := range []string{"p", "q"} {
		if has(p) {
			prefixes = append(prefixes, p)
		}
	}
	if len(prefixes) > 0 && rapid.IntRange(0, 2).Draw(t, "elPrefixed") == 0 {
		n.prefix = rapid.SampledFrom(prefixes).Draw(t, "elPrefix")
	}
	g.qnames[n.qname()] = true
	// attributes: distinct expanded names
	seen := map[string]bool{}
	na := rapid.SampledFrom([]int{0, 0, 1, 1, 2, 2, 3}).Draw(t, "nattr")
	for i := 0; i < na; i++ {
		a := [3]string{"", rapid.SampledFrom(c11AttrNames).Draw(t, "attr"), rapid.SampledFrom(c11Values).Draw(t, "attrVal")}
		if len(prefixes) > 0 && rapid.IntRange(0, 3).Draw(t, "attrPrefixed") == 0 {
			a[0] = rapid.SampledFrom(prefixes).Draw(t, "attrPrefix")
		}
		key := a[0] + ":" + a[1]
		if seen[key] {
			continue
		}
		seen[key] = true
		n.attrs = append(n.attrs, a)
		if a[0] != "" {
			g.attrs[a[0]+":"+a[1]] = true
		} else {
			g.attrs[a[1]] = true
		}
	}
	// children
	if depth >= g.maxDeep {
		if rapid.Bool().Draw(t, "leafText") {
			n.kids = append(n.kids, g.text())
		}
		return n
	}
	nk := rapid.SampledFrom([]int{0, 1, 1, 2, 2, 3, 4}).Draw(t, "nkids")
	if depth == 0 && nk == 0 {
		nk = 2
	}
	for i := 0; i < nk && g.budget > 0; i++ {
		switch rapid.IntRange(0, 9).Draw(t, "kidKind") {
		case 0, 1, 2:
			n.kids = append(n.kids, g.text())
		case 3:
			// text immediately followed by CDATA: two adjacent text nodes
			n.kids = append(n.kids, g.text())
			n.kids = append(n.kids, &c11GNode{isText: true, cdata: true, text: rapid.SampledFrom([]string{"x", "1", "<b>", " ", ""}).Draw(t, "cdata")})
			g.budget--
		case 4:
			// a CDATA section alone (sometimes empty: still a text token of the decoder, a text node of the tree)
			n.kids = append(n.kids, &c11GNode{isText: true, cdata: true, text: rapid.SampledFrom([]string{"", "", "x", " "}).Draw(t, "cdataAlone")})
			g.budget--
		default:
			n.kids = append(n.kids, g.element(depth+1, scope, ""))
		}
	}
	// two adjacent plain text kids would be one token: merge them so that the model stays honest
	var merged []*c11GNode
	for _, k := range n.kids {
		if l := len(merged); l > 0 && k.isText && !k.cdata && merged[l-1].isText && !merged[l-1].cdata {
			merged[l-1].text += k.text
			continue
		}
		merged = append(merged, k)
	}
	n.kids = merged
	return n
}

func (g *c11DocGen) text() *c11GNode {
	g.budget--
	return &c11GNode{isText: true, text: rapid.SampledFrom(c11Texts).Draw(g.t, "text")}
}

// c11DrawDoc draws a document; returns its text, the list of child-index paths of all element and
// text nodes (document order, the document node excluded), and the names it contains.
func c11DrawDoc(t *rapid.T) (doc string, paths [][]int, g *c11DocGen) {
	g = &c11DocGen{t: t, budget: rapid.SampledFrom([]int{6, 12, 20, 30, 45}).Draw(t, "budget"),
		qnames: map[string]bool{}, attrs: map[string]bool{}}
	g.useNS = rapid.IntRange(0, 9).Draw(t, "useNS") >= 4
	g.maxDeep = rapid.SampledFrom([]int{1, 2, 3, 3, 4, 6}).Draw(t, "maxDepth") // root is depth 0 => element depth <= 7
	root := g.element(0, nil, rapid.SampledFrom([]string{"r", "r", "a"}).Draw(t, "rootName"))
	var b strings.Builder
	root.render(&b)
	var walk func(n *c11GNode, path []int)
	walk = func(n *c11GNode, path []int) {
		paths = append(paths, append([]int{}, path...))
		for i, k := range n.kids {
			walk(k, append(path, i))
		}
	}
	walk(root, []int{0})
	return b.String(), paths, g
}

// ---------------------------------------------------------------------------------------------
// expressions

type c11XGen struct {
	t      *rapid.T
	names  []string // element name tests (qualified), biased to names present in the document
	attrs  []string // attribute name tests
	values []string
}

func c11NewXGen(t *rapid.T, d *c11DocGen) *c11XGen {
	g := &c11XGen{t: t}
	for _, n := range []string{"a", "b", "c", "r", "p:a", "p:b", "q:a", "q:c", "p:r"} {
		if d.qnames[n] {
			g.names = append(g.names, n, n, n)
		}
	}
	g.names = append(g.names, "a", "b", "c", "p:a", "q:b", "zz")
	for _, n := range []string{"k", "m", "n", "p:k", "p:m", "q:k", "p:n", "q:m", "q:n"} {
		if d.attrs[n] {
			g.attrs = append(g.attrs, n, n, n)
		}
	}
	g.attrs = append(g.attrs, "k", "m", "p:k", "zz", "xmlns:p", "xmlns")
	g.values = []string{"x", "1", "2", "x y", "10", "a", "", "3", "x  y", "a\tb", " x ", "\n  "}
	return g
}

func (g *c11XGen) pick(label string, xs ...string) string {
	return rapid.SampledFrom(xs).Draw(g.t, label)
}

func (g *c11XGen) lit(label string) string {
	return "'" + rapid.SampledFrom(g.values).Draw(g.t, label) + "'"
}

var c11Axes = []string{"child::", "descendant::", "descendant-or-self::", "parent::", "ancestor::", "ancestor-or-self::",
	"following-sibling::", "preceding-sibling::", "following::", "preceding::", "self::", "attribute::"}

// nodeTest for a non-attribute axis
func (g *c11XGen) nodeTest() string {
	switch rapid.IntRange(0, 9).Draw(g.t, "testKind") {
	case 0, 1, 2, 3:
		return rapid.SampledFrom(g.names).Draw(g.t, "nameTest")
	case 4, 5, 6:
		return "*"
	case 7:
		return "node()"
	case 8:
		return "text()"
	default:
		return g.pick("prefixStar", "p:*", "q:*", "*")
	}
}

func (g *c11XGen) attrTest() string {
	if rapid.IntRange(0, 2).Draw(g.t, "attrStar") == 0 {
		return "*"
	}
	return rapid.SampledFrom(g.attrs).Draw(g.t, "attrTest")
}

// step draws one location step. afterAttr says that the previous step selected attributes: the
// steps that probe the attribute boundary (parent, siblings, following, children of an attribute)
// are favoured then.
func (g *c11XGen) step(afterAttr bool, depth int) (s string, isAttr bool) {
	t := g.t
	if afterAttr {
		s = g.pick("afterAttr", "..", "parent::*", "parent::node()", "ancestor::*", "ancestor-or-self::node()", "following-sibling::*",
			"following-sibling::node()", "preceding-sibling::node()", "following::*", "following::node()", "preceding::*",
			"self::node()", "self::*", "node()", "text()", "*", "descendant-or-self::node()", "descendant::node()", "@*", ".")
		if s != ".." && s != "." && rapid.IntRange(0, 2).Draw(t, "afterAttrPred") == 0 {
			s += g.pred(depth, false)
		}
		return s, s == "@*"
	}
	switch k := rapid.IntRange(0, 19).Draw(t, "stepKind"); {
	case k <= 5: // abbreviated child step
		s = g.nodeTest()
	case k <= 9: // attribute step
		if rapid.IntRange(0, 3).Draw(t, "attrLong") == 0 {
			s = "attribute::" + g.attrTest()
		} else {
			s = "@" + g.attrTest()
		}
		isAttr = true
	case k == 10:
		return g.pick("dots", "..", "..", "."), false
	case k == 11:
		// steps that can select the document node, with a predicate on the string value of the context
		// (the class the second reference judges)
		s = g.pick("docStep", "ancestor::node()", "ancestor-or-self::node()", "parent::node()", "self::node()", "..", ".",
			"descendant-or-self::node()", "ancestor::*", "preceding::node()")
		s += "[" + g.pick("docPred", ".="+g.lit("dl1"), "contains(.,"+g.lit("dl2")+")", "starts-with(.,"+g.lit("dl3")+")",
			"string-length(.)>"+fmt.Sprint(rapid.IntRange(0, 6).Draw(t, "dl4")), "normalize-space(.)!=''", "string(.)!="+g.lit("dl5"), "not(.='')") + "]"
		return s, false
	default:
		ax := rapid.SampledFrom(c11Axes).Draw(t, "axis")
		if ax == "attribute::" {
			s = ax + g.attrTest()
			isAttr = true
		} else {
			s = ax + g.nodeTest()
		}
	}
	np := rapid.SampledFrom([]int{0, 0, 0, 0, 0, 1, 1, 1, 2}).Draw(t, "npred")
	for i := 0; i < np; i++ {
		s += g.pred(depth, isAttr)
	}
	return s, isAttr
}

// relPath draws a relative path of 1..max steps (used for top-level paths and inside predicates).
func (g *c11XGen) relPath(max, depth int) string {
	n := rapid.IntRange(1, max).Draw(g.t, "nsteps")
	var b strings.Builder
	after := false
	for i := 0; i < n; i++ {
		if i > 0 {
			b.WriteString(g.pick("sep", "/", "/", "/", "/", "//"))
		}
		s, isAttr := g.step(after, depth)
		b.WriteString(s)
		after = isAttr
	}
	return b.String()
}

// nodeSet draws a node-set valued expression usable inside a predicate.
func (g *c11XGen) nodeSet(depth int) string {
	switch rapid.IntRange(0, 11).Draw(g.t, "nodeSetKind") {
	case 0, 1, 2:
		return "@" + g.attrTest()
	case 3, 4:
		return rapid.SampledFrom(g.names).Draw(g.t, "nsName")
	case 5:
		return g.pick("nsSimple", "*", "text()", "node()", "..", ".", "@*")
	case 6:
		return g.pick("nsUp", "../@", "../../@", "parent::*/@", "ancestor::*/@") + g.attrTest()
	case 9:
		// whole node-sets of an upward axis (the string value of EVERY ancestor takes part in a general comparison)
		return g.pick("nsAnc", "ancestor::*", "ancestor-or-self::*", "ancestor::node()", "ancestor::"+rapid.SampledFrom(g.names).Draw(g.t, "ancName"), "../..", "ancestor::*[2]")
	case 7:
		return g.pick("nsSib", "following-sibling::*", "preceding-sibling::*", "following-sibling::*[1]", "preceding-sibling::*[1]",
			"following-sibling::node()", "preceding-sibling::node()[1]", "following::*", "preceding::*[1]")
	case 8:
		// absolute path inside a predicate (MoveToRoot from an inner position)
		return g.pick("nsAbs", "/", "//", "/*/") + g.relPath(2, depth+1)
	default:
		if depth >= 2 {
			return "*"
		}
		return g.relPath(2, depth+1)
	}
}

// boolean draws a boolean-valued predicate body.
func (g *c11XGen) boolean(depth int, onAttr bool) string {
	t := g.t
	k := rapid.IntRange(0, 23).Draw(t, "boolKind")
	if depth >= 2 && k >= 20 {
		k = 0
	}
	switch k {
	case 0, 1:
		return g.nodeSet(depth)
	case 2, 3:
		return g.nodeSet(depth) + g.pick("cmp", "=", "=", "!=", "<", ">", ">=", "<=") + g.lit("cmpLit")
	case 4:
		return g.nodeSet(depth) + g.pick("cmpn", "=", ">", "<", "!=") + fmt.Sprint(rapid.IntRange(0, 3).Draw(t, "cmpNum"))
	case 5, 6:
		return "." + g.pick("dotcmp", "=", "=", "!=", ">", "<") + g.lit("dotLit")
	case 7:
		return g.pick("strfn", "contains", "starts-with", "ends-with") + "(" + g.pick("strArg", ".", ".", "@k", "@*", "text()", "*", "..") + "," + g.lit("strLit") + ")"
	case 8:
		return "string-length(" + g.pick("slArg", ".", ".", "@k", "@*", "text()", "..", "name()") + ")" + g.pick("slCmp", "=", ">", "<") + fmt.Sprint(rapid.IntRange(0, 4).Draw(t, "slNum"))
	case 9:
		return "normalize-space(" + g.pick("nsArg", ".", ".", "@k", "text()", "*") + ")=" + g.lit("nsLit")
	case 10, 11:
		return "count(" + g.nodeSet(depth) + ")" + g.pick("cntCmp", "=", ">", "<", ">=", "!=") + fmt.Sprint(rapid.IntRange(0, 3).Draw(t, "cntNum"))
	case 12:
		return "count(" + g.nodeSet(depth) + ")" + g.pick("cnt2Cmp", "=", ">", "<") + "count(" + g.nodeSet(depth) + ")"
	case 13:
		n := rapid.SampledFrom(append([]string{}, append(g.names, g.attrs...)...)).Draw(t, "nameLit")
		return g.pick("nameFn", "name()", "name()", "local-name()", "name(..)", "local-name(..)", "name(*)", "name(@*)") + "='" + n + "'"
	case 14:
		if onAttr {
			return "name()='" + rapid.SampledFrom(g.attrs).Draw(t, "attrNameLit") + "'"
		}
		return g.pick("nsuri", "namespace-uri()", "namespace-uri()", "namespace-uri(..)", "namespace-uri(*)") + "=" + g.pick("uriLit", "'urn:p'", "'urn:q'", "'urn:d'", "''")
	case 15:
		return "sum(" + g.nodeSet(depth) + ")" + g.pick("sumCmp", ">", "<", "=") + fmt.Sprint(rapid.IntRange(0, 12).Draw(t, "sumNum"))
	case 16:
		return g.pick("numfn", "number(", "floor(", "ceiling(", "round(") + g.pick("numArg", ".", "@k", "@*", "text()", "*") + ")" + g.pick("numCmp", ">", "<", "=", ">=") + fmt.Sprint(rapid.IntRange(0, 3).Draw(t, "numNum"))
	case 17:
		return g.pick("strOf", "string(.)", "string(@k)", "string(*)", "string(..)", "concat(.,@k)", "concat(name(),'|',.)", "substring(.,1,1)", "translate(.,'x','y')") + "=" + g.lit("strOfLit")
	case 18:
		return g.pick("boolFn", "boolean(", "not(") + g.nodeSet(depth) + ")"
	case 19:
		return g.pick("tf", "true()", "false()", "not(false())")
	case 20:
		return "not(" + g.boolean(depth+1, onAttr) + ")"
	case 21, 22:
		return g.boolean(depth+1, onAttr) + g.pick("andor", " and ", " or ") + g.boolean(depth+1, onAttr)
	default:
		return "(" + g.boolean(depth+1, onAttr) + ")"
	}
}

// pred draws one predicate (with brackets).
func (g *c11XGen) pred(depth int, onAttr bool) string {
	t := g.t
	switch rapid.IntRange(0, 9).Draw(t, "predKind") {
	case 0, 1:
		return fmt.Sprintf("[%d]", rapid.IntRange(1, 3).Draw(t, "posN"))
	case 2:
		return g.pick("posLast", "[last()]", "[last()]", "[last()-1]", "[position()=last()]")
	case 3:
		return fmt.Sprintf("[position()%s%d]", g.pick("posCmp", "<", ">", "=", "<=", "!=", ">="), rapid.IntRange(1, 3).Draw(t, "posM"))
	default:
		return "[" + g.boolean(depth, onAttr) + "]"
	}
}

// c11DrawXPath draws a complete expression.
func c11DrawXPath(t *rapid.T, d *c11DocGen) string {
	g := c11NewXGen(t, d)
	path := func() string {
		lead := g.pick("lead", "", "", "/", "/", "//", "//", "./", ".//", "/*/", "//*/")
		return lead + g.relPath(4, 0)
	}
	switch rapid.IntRange(0, 19).Draw(t, "exprKind") {
	case 5:
		// the commonest xpath of all in schemas: nothing but an element name (bare or prefixed), or name/name
		one := func(l string) string {
			n := rapid.SampledFrom(g.names).Draw(t, l)
			if rapid.IntRange(0, 2).Draw(t, l+"bare") == 0 {
				if i := strings.Index(n, ":"); i >= 0 {
					n = n[i+1:] // the local name of a prefixed one, written without prefix
				}
			}
			return n
		}
		if rapid.Bool().Draw(t, "plainTwo") {
			return one("plainA") + "/" + one("plainB")
		}
		return one("plainA")
	case 0:
		return path() + "|" + path()
	case 1:
		return "(" + path() + ")" + fmt.Sprintf("[%d]", rapid.IntRange(1, 3).Draw(t, "filterN"))
	case 2:
		return "(" + path() + ")[last()]"
	case 3:
		return g.pick("trivial", "/", ".", "..", "//node()", "//@*", "//text()", "/*", "@*")
	case 4:
		return "(" + path() + "|" + path() + ")/" + g.relPath(2, 0)
	default:
		return path()
	}
}
