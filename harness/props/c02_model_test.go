package props

// Reference evaluator for C02: an independent, deliberately naive implementation of the documented
// transform semantics (DESIGN.md Appendix A). It works on the schema's JSON text (generic maps), never
// caches, never sorts children, and shares no code with extensions/omniv21/transform. Trusted base:
// node-set selection is delegated to idr.MatchAll with the expression cache disabled (the xpath
// binding is C11's and C04's subject), and the built-in custom functions are called directly.

import (
	"encoding/json"
	"errors"
	"fmt"
	"math"
	"strconv"
	"strings"

	"github.com/jf-tech/omniparser/customfuncs"
	v21 "github.com/jf-tech/omniparser/extensions/omniv21/customfuncs"
	"github.com/jf-tech/omniparser/idr"
)

type c02Map = map[string]interface{}

// c02Fail marks "this record fails" (a per-record failure), as opposed to a harness error.
type c02Fail struct {
	why string
	// mismatch: the failure is an argument that does not fit the function's signature (count or type). Whether
	// ignore_error covers it is not documented (it is neither an argument transform error nor the function failing).
	mismatch bool
}

func (f *c02Fail) Error() string { return f.why }

func c02Failf(format string, args ...interface{}) error {
	return &c02Fail{why: fmt.Sprintf(format, args...)}
}

// c02Alt collects the alternative outcomes the documentation leaves open (DESIGN Appendix A, rows marked T).
// The evaluator is run once per combination of choices; the implementation must match one of them.
type c02Choices struct {
	DynamicFailureIsNoMatch bool // xpath_dynamic that fails or is blank: "no match" instead of record failure
	ArgFailureIgnored       bool // failing argument under ignore_error: nil instead of record failure
}

type c02Model struct {
	templates c02Map
	external  map[string]string
	ch        c02Choices
	usedT     map[string]bool // which tolerance points were actually reached
}

func c02Clone(v interface{}) interface{} {
	b, _ := json.Marshal(v)
	var out interface{}
	_ = json.Unmarshal(b, &out)
	return out
}

// inline resolves template references: the reference behaves as its body inlined at the reference site,
// with the reference's xpath / xpath_dynamic moved onto the body.
func (m *c02Model) inline(decl c02Map, depth int) (c02Map, error) {
	name, ok := decl["template"].(string)
	if !ok {
		return decl, nil
	}
	if depth > 20 {
		return nil, errors.New("template nesting too deep (cycle?)")
	}
	body, ok := m.templates[name].(c02Map)
	if !ok {
		return nil, fmt.Errorf("unknown template %q", name)
	}
	cp := c02Clone(body).(c02Map)
	if x, ok := decl["xpath"]; ok {
		cp["xpath"] = x
	}
	if x, ok := decl["xpath_dynamic"]; ok {
		cp["xpath_dynamic"] = x
	}
	return m.inline(cp, depth+1)
}

// text is the string value of a node: concatenated descendant text, attributes excluded.
func c02Text(n *idr.Node) string {
	if n.Type == idr.TextNode {
		return n.Data
	}
	var b strings.Builder
	for c := n.FirstChild; c != nil; c = c.NextSibling {
		if c.Type == idr.AttributeNode {
			continue
		}
		b.WriteString(c02Text(c))
	}
	return b.String()
}

// c02KeptEmpty is the value of an object / array that produced nothing but carries keep_empty_or_null (and of
// an anchored object whose anchor did not match): the documentation says {} / [], the long-standing behaviour
// is null for some of them; the comparison accepts null, {} and [] at such a position (DESIGN Appendix A rows 7, 8).
type c02KeptEmpty struct{}

func c02IsEmpty(v interface{}) bool {
	switch t := v.(type) {
	case nil:
		return true
	case c02KeptEmpty:
		return true
	case string:
		return t == ""
	case c02Map:
		return len(t) == 0
	case []interface{}:
		return len(t) == 0
	}
	return false
}

// xpathOf computes the anchoring xpath of a declaration at cursor cur: (xpath, has, noMatch, err).
func (m *c02Model) xpathOf(decl c02Map, cur *idr.Node) (xp string, has bool, noMatch bool, err error) {
	if s, ok := decl["xpath"].(string); ok {
		return s, true, false, nil
	}
	dyn, ok := decl["xpath_dynamic"].(c02Map)
	if !ok {
		return "", false, false, nil
	}
	v, derr := m.eval(dyn, cur, false, false)
	bad := derr != nil
	if !bad {
		s, isStr := v.(string)
		if !isStr || strings.TrimSpace(s) == "" {
			bad = true
		} else {
			xp = s
		}
	}
	if bad {
		m.usedT["dynamic-failure"] = true
		if m.ch.DynamicFailureIsNoMatch {
			return "", true, true, nil
		}
		return "", true, false, c02Failf("xpath_dynamic yields no usable xpath")
	}
	return xp, true, false, nil
}

// eval evaluates decl at cursor cur. underArray: the declaration is a direct child of an array and cur is
// one of the nodes its xpath selected (the xpath is not applied again). isFinal: FINAL_OUTPUT (its xpath is
// the reader's record filter and is never applied again).
func (m *c02Model) eval(decl c02Map, cur *idr.Node, underArray, isFinal bool) (interface{}, error) {
	decl, err := m.inline(decl, 0)
	if err != nil {
		return nil, err
	}
	if !underArray && !isFinal {
		xp, has, noMatch, err := m.xpathOf(decl, cur)
		if err != nil {
			return nil, err
		}
		if has {
			if noMatch {
				return nil, nil
			}
			nodes, err := idr.MatchAll(cur, xp, idr.DisableXPathCache)
			if err != nil {
				return nil, c02Failf("xpath %q cannot be evaluated: %v", xp, err)
			}
			switch len(nodes) {
			case 0:
				return nil, nil
			case 1:
				cur = nodes[0]
			default:
				return nil, c02Failf("xpath %q matches %d nodes", xp, len(nodes))
			}
		}
	}
	keep, _ := decl["keep_empty_or_null"].(bool)
	switch {
	case decl["const"] != nil:
		return m.normalize(decl, decl["const"].(string))
	case decl["external"] != nil:
		v, ok := m.external[decl["external"].(string)]
		if !ok {
			return nil, c02Failf("external property %q missing", decl["external"])
		}
		return m.normalize(decl, v)
	case decl["custom_func"] != nil:
		cf := decl["custom_func"].(c02Map)
		ignore, _ := cf["ignore_error"].(bool)
		var args []interface{}
		if list, ok := cf["args"].([]interface{}); ok {
			for _, a := range list {
				av, err := m.eval(a.(c02Map), cur, false, false)
				if err != nil {
					if _, isFail := err.(*c02Fail); isFail && ignore {
						m.usedT["arg-failure-under-ignore-error"] = true
						if m.ch.ArgFailureIgnored {
							return nil, nil
						}
					}
					return nil, err
				}
				args = append(args, av)
			}
		}
		res, err := c02Call(cf["name"].(string), cur, args)
		if err != nil {
			if f, isFail := err.(*c02Fail); isFail && ignore {
				if f.mismatch {
					m.usedT["arg-failure-under-ignore-error"] = true
					if !m.ch.ArgFailureIgnored {
						return nil, err
					}
				}
				return nil, nil
			}
			return nil, err
		}
		return m.normalize(decl, res)
	case decl["object"] != nil:
		out := c02Map{}
		children := decl["object"].(c02Map)
		for key, cd := range children {
			child, err := m.inline(cd.(c02Map), 0)
			if err != nil {
				return nil, err
			}
			cv, err := m.eval(child, cur, false, false)
			if err != nil {
				return nil, err
			}
			ckeep, _ := child["keep_empty_or_null"].(bool)
			if c02IsEmpty(cv) && !ckeep {
				continue
			}
			out[key] = cv
		}
		if len(out) == 0 {
			if !keep {
				return nil, nil
			}
			m.usedT["kept-empty-container"] = true
			return c02KeptEmpty{}, nil
		}
		return out, nil
	case decl["array"] != nil:
		var out []interface{}
		for _, cd := range decl["array"].([]interface{}) {
			child, err := m.inline(cd.(c02Map), 0)
			if err != nil {
				return nil, err
			}
			ckeep, _ := child["keep_empty_or_null"].(bool)
			xp, has, noMatch, err := m.xpathOf(child, cur)
			if err != nil {
				return nil, err
			}
			nodes := []*idr.Node{cur}
			if has {
				if noMatch {
					continue
				}
				nodes, err = idr.MatchAll(cur, xp, idr.DisableXPathCache)
				if err != nil {
					return nil, c02Failf("xpath %q cannot be evaluated: %v", xp, err)
				}
			}
			for _, n := range nodes {
				cv, err := m.eval(child, n, true, false)
				if err != nil {
					return nil, err
				}
				if c02IsEmpty(cv) && !ckeep {
					continue
				}
				out = append(out, cv)
			}
		}
		if len(out) == 0 {
			if !keep {
				return nil, nil
			}
			m.usedT["kept-empty-container"] = true
			return c02KeptEmpty{}, nil
		}
		return out, nil
	default: // field
		return m.normalize(decl, c02Text(cur))
	}
}

// normalize applies trimming, type cast and the empty rule to a leaf result.
func (m *c02Model) normalize(decl c02Map, v interface{}) (interface{}, error) {
	if v == nil {
		return nil, nil
	}
	if _, ok := v.(c02KeptEmpty); ok {
		return v, nil
	}
	noTrim, _ := decl["no_trim"].(bool)
	if s, ok := v.(string); ok && !noTrim {
		v = strings.TrimSpace(s)
	}
	if typ, ok := decl["type"].(string); ok {
		cv, err := c02Cast(v, typ)
		if err != nil {
			return nil, err
		}
		v = cv
	}
	// (a NaN / Inf produced by a float cast is a value like any other while it travels - a function may take it as an
	// argument; only when it is EMITTED does the record fail: c02NonFinite, applied to the final value)
	if c02IsEmpty(v) {
		keep, _ := decl["keep_empty_or_null"].(bool)
		if !keep {
			return nil, nil
		}
	}
	return v, nil
}

// c02NonFinite reports whether an evaluated output contains a float that JSON cannot carry.
func c02NonFinite(v interface{}) bool {
	switch t := v.(type) {
	case float64:
		return math.IsNaN(t) || math.IsInf(t, 0)
	case c02Map:
		for _, x := range t {
			if c02NonFinite(x) {
				return true
			}
		}
	case []interface{}:
		for _, x := range t {
			if c02NonFinite(x) {
				return true
			}
		}
	}
	return false
}

func c02Cast(v interface{}, typ string) (interface{}, error) {
	switch t := v.(type) {
	case string:
		switch typ {
		case "int":
			n, err := strconv.ParseInt(t, 10, 64)
			if err != nil {
				return nil, c02Failf("cannot cast %q to int", t)
			}
			return n, nil
		case "float":
			f, err := strconv.ParseFloat(t, 64)
			if err != nil {
				return nil, c02Failf("cannot cast %q to float", t)
			}
			return f, nil
		case "boolean":
			b, err := strconv.ParseBool(t)
			if err != nil {
				return nil, c02Failf("cannot cast %q to boolean", t)
			}
			return b, nil
		default:
			return t, nil
		}
	case int64:
		switch typ {
		case "int":
			return t, nil
		case "float":
			return float64(t), nil
		case "string":
			return fmt.Sprintf("%v", t), nil
		}
	case float64:
		switch typ {
		case "int":
			// the integral part (truncation toward zero); only small finite values are generated
			if math.IsNaN(t) || math.IsInf(t, 0) || math.Abs(t) > 1e15 {
				return nil, fmt.Errorf("harness: float -> int cast of %v is outside the modelled range", t)
			}
			return int64(t), nil
		case "float":
			return t, nil
		case "string":
			return fmt.Sprintf("%v", t), nil
		}
	case bool:
		switch typ {
		case "boolean":
			return t, nil
		case "string":
			return fmt.Sprintf("%v", t), nil
		}
	}
	return nil, c02Failf("cast of %T to %s fails the record", v, typ)
}

// c02Call invokes a built-in custom function positionally; a nil argument becomes the zero value of
// the parameter type. The table of parameter types is the harness' own.
func c02Call(name string, cur *idr.Node, args []interface{}) (interface{}, error) {
	str := func(i int) (string, error) {
		if i >= len(args) || args[i] == nil {
			return "", nil
		}
		s, ok := args[i].(string)
		if !ok {
			return "", &c02Fail{why: fmt.Sprintf("argument %d of %s is %T, a string is required", i+1, name, args[i]), mismatch: true}
		}
		return s, nil
	}
	strs := func() ([]string, error) {
		out := make([]string, len(args))
		for i := range args {
			s, err := str(i)
			if err != nil {
				return nil, err
			}
			out[i] = s
		}
		return out, nil
	}
	wrap := func(v interface{}, err error) (interface{}, error) {
		if err != nil {
			return nil, c02Failf("custom function %s failed: %v", name, err)
		}
		return v, nil
	}
	fixed := func(n int) error {
		if len(args) != n {
			return &c02Fail{why: fmt.Sprintf("%s takes %d argument(s), got %d", name, n, len(args)), mismatch: true}
		}
		return nil
	}
	switch name {
	case "concat":
		ss, err := strs()
		if err != nil {
			return nil, err
		}
		return wrap(customfuncs.Concat(nil, ss...))
	case "coalesce":
		ss, err := strs()
		if err != nil {
			return nil, err
		}
		return wrap(customfuncs.Coalesce(nil, ss...))
	case "upper", "lower", "uuidv3":
		if err := fixed(1); err != nil {
			return nil, err
		}
		s, err := str(0)
		if err != nil {
			return nil, err
		}
		switch name {
		case "upper":
			return wrap(customfuncs.Upper(nil, s))
		case "lower":
			return wrap(customfuncs.Lower(nil, s))
		default:
			return wrap(customfuncs.UUIDv3(nil, s))
		}
	case "dateTimeToEpoch":
		if err := fixed(3); err != nil {
			return nil, err
		}
		a, e1 := str(0)
		b, e2 := str(1)
		c, e3 := str(2)
		for _, e := range []error{e1, e2, e3} {
			if e != nil {
				return nil, e
			}
		}
		return wrap(customfuncs.DateTimeToEpoch(nil, a, b, c))
	case "c02mix":
		if err := fixed(4); err != nil {
			return nil, err
		}
		zero := []interface{}{"", int64(0), false, float64(0)}
		vals := make([]interface{}, 4)
		for i := range vals {
			vals[i] = zero[i]
			if args[i] == nil {
				continue
			}
			if fmt.Sprintf("%T", args[i]) != fmt.Sprintf("%T", zero[i]) {
				return nil, &c02Fail{why: fmt.Sprintf("argument %d of c02mix is %T, %T is required", i+1, args[i], zero[i]), mismatch: true}
			}
			vals[i] = args[i]
		}
		return wrap(c02Mix(nil, vals[0].(string), vals[1].(int64), vals[2].(bool), vals[3].(float64)))
	case "c02var":
		if len(args) < 1 {
			return nil, &c02Fail{why: "c02var needs its prefix", mismatch: true}
		}
		p, err := str(0)
		if err != nil {
			return nil, err
		}
		return wrap(c02Var(nil, p, args[1:]...))
	case "copy":
		if err := fixed(0); err != nil {
			return nil, err
		}
		return wrap(v21.CopyFunc(nil, cur))
	case "javascript":
		if len(args) < 1 {
			return nil, c02Failf("javascript needs a script")
		}
		js, err := str(0)
		if err != nil {
			return nil, err
		}
		return wrap(v21.JavaScript(nil, js, args[1:]...))
	}
	return nil, fmt.Errorf("harness: function %q not in the model's table", name)
}

// c02Same compares a model value with a decoded (UseNumber) output value.
func c02Same(want, got interface{}) bool {
	switch w := want.(type) {
	case c02KeptEmpty:
		switch g := got.(type) {
		case nil:
			return true
		case map[string]interface{}:
			return len(g) == 0
		case []interface{}:
			return len(g) == 0
		}
		return false
	case c02Map:
		g, ok := got.(map[string]interface{})
		if !ok || len(g) != len(w) {
			return false
		}
		for k, wv := range w {
			gv, ok := g[k]
			if !ok || !c02Same(wv, gv) {
				return false
			}
		}
		return true
	case []interface{}:
		g, ok := got.([]interface{})
		if !ok || len(g) != len(w) {
			return false
		}
		for i := range w {
			if !c02Same(w[i], g[i]) {
				return false
			}
		}
		return true
	case nil:
		return got == nil
	default:
		return c02Canon(want) == c02Canon(got)
	}
}
