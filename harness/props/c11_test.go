package props

// C11 — XPath queries over the node tree agree with a reference XML DOM (differential).
//
// One case = (XML document, XPath expression, context node). The document is loaded into an idr
// tree by idr.XMLStreamReader and into an antchfx/xmlquery v1.3.1 DOM; the expression is compiled
// once and evaluated over both through the respective navigators; the result lists must be equal as
// sequences of (structural address, node kind, qualified name, string value). See c11_ref_test.go
// for the reference normalisations and the second reference navigator.

import (
	"errors"
	"fmt"
	"reflect"
	"regexp"
	"strings"
	"testing"

	"github.com/antchfx/xmlquery"
	"github.com/antchfx/xpath"
	"github.com/jf-tech/omniparser/idr"
	"pgregory.net/rapid"

	"verifharness/obs"
)

type c11Case struct {
	Doc   string `json:"doc"`
	XPath string `json:"xpath"`
	// Ctx is the child-index path (over element/text children, attributes not counted) from the
	// document node to the context node; empty = the document node itself.
	Ctx []int `json:"ctx"`
}

func genC11(t *rapid.T) c11Case {
	doc, paths, dg := c11DrawDoc(t)
	c := c11Case{Doc: doc, Ctx: []int{}}
	switch k := rapid.IntRange(0, 9).Draw(t, "ctxKind"); {
	case k <= 3: // document node
	case k == 4:
		c.Ctx = []int{0}
	default:
		c.Ctx = paths[rapid.IntRange(0, len(paths)-1).Draw(t, "ctxIdx")]
	}
	// Bias towards expressions that select something: candidates are drawn until one selects a node
	// on the reference DOM (second reference navigator); an empty one is kept now and then, and after
	// a few attempts. This only steers the generator - the oracle is checkC11.
	var ctxX *xmlquery.Node
	if xd, err := xmlquery.Parse(strings.NewReader(doc)); err == nil {
		c11Normalise(xd)
		ctxX = c11WalkXQ(xd, c.Ctx)
	}
	for try := 0; ; try++ {
		c.XPath = c11DrawXPath(t, dg)
		if try >= 23 || ctxX == nil {
			break
		}
		expr, err := xpath.Compile(c.XPath)
		if err != nil {
			continue
		}
		if o := c11EvalRef(ctxX, expr); len(o.Hits) > 0 {
			rich := c11Steps(c.XPath) >= 2 && (c11ReAttr.MatchString(c.XPath) || c11ReReverse.MatchString(c.XPath) || c11RePos.MatchString(c.XPath))
			if rich || rapid.IntRange(0, 9).Draw(t, "keepPlain") >= 5 {
				break
			}
		} else if rapid.IntRange(0, 29).Draw(t, "keepEmpty") == 13 {
			break
		}
	}
	return c
}

// ---------------------------------------------------------------------------------------------
// hits

// c11Hit describes one selected node independently of the DOM it came from.
type c11Hit struct {
	Addr  string // child-index path from the document node; attributes as <owner>/@<index>
	Kind  string // doc | elem | text | attr | (anything else is foreign to the reference)
	Name  string // qualified name (elements, attributes)
	Value string // string value
}

func (h c11Hit) String() string { return fmt.Sprintf("%s %s %s %q", h.Addr, h.Kind, h.Name, h.Value) }

type c11Outcome struct {
	Hits  []c11Hit
	Panic string
}

func (o c11Outcome) String() string {
	if o.Panic != "" {
		return "PANIC " + o.Panic
	}
	s := make([]string, len(o.Hits))
	for i, h := range o.Hits {
		s[i] = h.String()
	}
	return "[" + strings.Join(s, " | ") + "]"
}

func c11Equal(a, b c11Outcome) bool {
	if (a.Panic != "") != (b.Panic != "") || len(a.Hits) != len(b.Hits) {
		return false
	}
	for i := range a.Hits {
		if a.Hits[i] != b.Hits[i] {
			return false
		}
	}
	return true
}

const c11MaxHits = 5000

func c11IdrAddr(n *idr.Node) string {
	idx := func(x *idr.Node) int {
		i := 0
		for s := x.PrevSibling; s != nil; s = s.PrevSibling {
			if s.Type != idr.AttributeNode {
				i++
			}
		}
		return i
	}
	if n.Type == idr.AttributeNode && n.Parent != nil {
		i := 0
		for s := n.PrevSibling; s != nil; s = s.PrevSibling {
			i++
		}
		return fmt.Sprintf("%s/@%d", c11IdrAddr(n.Parent), i)
	}
	if n.Parent == nil {
		return ""
	}
	if n.Parent.Type == idr.AttributeNode {
		return c11IdrAddr(n.Parent) + "/#value"
	}
	return fmt.Sprintf("%s/%d", c11IdrAddr(n.Parent), idx(n))
}

func c11IdrHit(n *idr.Node) c11Hit {
	h := c11Hit{Addr: c11IdrAddr(n), Value: n.InnerText()}
	switch n.Type {
	case idr.DocumentNode:
		h.Kind = "doc"
	case idr.ElementNode:
		h.Kind = "elem"
	case idr.TextNode:
		h.Kind = "text"
		if n.Parent != nil && n.Parent.Type == idr.AttributeNode {
			h.Kind = "attr-value-text"
		}
	case idr.AttributeNode:
		h.Kind = "attr"
	default:
		h.Kind = n.Type.String()
	}
	if n.Type == idr.ElementNode || n.Type == idr.AttributeNode {
		h.Name = n.Data
		if idr.IsXML(n) {
			if p := idr.XMLSpecificOf(n).NamespacePrefix; p != "" {
				h.Name = p + ":" + n.Data
			}
		}
	}
	return h
}

func c11XQAddr(n *xmlquery.Node) string {
	if n.Parent == nil {
		return ""
	}
	i := 0
	for s := n.PrevSibling; s != nil; s = s.PrevSibling {
		i++
	}
	return fmt.Sprintf("%s/%d", c11XQAddr(n.Parent), i)
}

func c11XQHit(n *xmlquery.Node, attr int) c11Hit {
	if attr >= 0 {
		a := n.Attr[attr]
		h := c11Hit{Addr: fmt.Sprintf("%s/@%d", c11XQAddr(n), attr), Kind: "attr", Name: a.Name.Local, Value: a.Value}
		if a.Name.Space != "" {
			h.Name = a.Name.Space + ":" + a.Name.Local
		}
		return h
	}
	h := c11Hit{Addr: c11XQAddr(n), Value: c11XQText(n)}
	switch n.Type {
	case xmlquery.DocumentNode:
		h.Kind = "doc"
	case xmlquery.ElementNode:
		h.Kind = "elem"
		h.Name = n.Data
		if n.Prefix != "" {
			h.Name = n.Prefix + ":" + n.Data
		}
	case xmlquery.TextNode, xmlquery.CharDataNode:
		h.Kind = "text"
	default:
		h.Kind = fmt.Sprintf("xmlquery-type-%d", n.Type)
	}
	return h
}

func c11Guard(o *c11Outcome) {
	if p := recover(); p != nil {
		o.Hits = nil
		o.Panic = fmt.Sprint(p)
	}
}

// c11EvalIdr evaluates through idr.QueryIter with the shared compiled expression.
func c11EvalIdr(ctx *idr.Node, expr *xpath.Expr) (o c11Outcome, nodes []*idr.Node) {
	defer c11Guard(&o)
	it := idr.QueryIter(ctx, expr)
	for it.MoveNext() {
		n := c11IdrCurrent(it)
		nodes = append(nodes, n)
		o.Hits = append(o.Hits, c11IdrHit(n))
		if len(o.Hits) >= c11MaxHits {
			break
		}
	}
	return o, nodes
}

// c11IdrCurrent gets the *idr.Node under the iterator: the navigator type is unexported but
// has an exported Current() method.
func c11IdrCurrent(it *xpath.NodeIterator) *idr.Node {
	return it.Current().(interface{ Current() *idr.Node }).Current()
}

func c11EvalXQ(ctx *xmlquery.Node, expr *xpath.Expr) (o c11Outcome, fired string) {
	defer c11Guard(&o)
	p := &c11Probe{inner: xmlquery.CreateXPathNavigator(ctx), fired: &fired}
	it := expr.Select(p)
	for it.MoveNext() {
		nav := it.Current().(*c11Probe).inner
		attr := -1
		if nav.NodeType() == xpath.AttributeNode {
			attr = int(reflect.ValueOf(nav).Elem().FieldByName("attr").Int())
		}
		o.Hits = append(o.Hits, c11XQHit(nav.Current(), attr))
		if len(o.Hits) >= c11MaxHits {
			break
		}
	}
	return o, fired
}

func c11EvalRef(ctx *xmlquery.Node, expr *xpath.Expr) (o c11Outcome) {
	defer c11Guard(&o)
	it := expr.Select(&c11RefNav{root: ctx, cur: ctx, attr: -1})
	for it.MoveNext() {
		nav := it.Current().(*c11RefNav)
		o.Hits = append(o.Hits, c11XQHit(nav.cur, nav.attr))
		if len(o.Hits) >= c11MaxHits {
			break
		}
	}
	return o
}

// ---------------------------------------------------------------------------------------------
// expression features (derived from the text, so that hand-written replay cases are classified too)

var (
	c11ReAttr    = regexp.MustCompile(`@|attribute::`)
	c11ReReverse = regexp.MustCompile(`\.\.|parent::|ancestor::|ancestor-or-self::|preceding::|preceding-sibling::|following-sibling::`)
	c11RePos     = regexp.MustCompile(`\[\s*\d+\s*\]|last\(\)|position\(\)`)
	c11ReValue   = regexp.MustCompile(`[=<>]\s*'|contains\(|starts-with\(|ends-with\(|string-length\(|normalize-space\(`)
	c11RePrefix  = regexp.MustCompile(`(^|[^a-z:])[pq]:[a-z*]`)
	c11ReFunc    = regexp.MustCompile(`(count|sum|name|local-name|namespace-uri|not|contains|starts-with|string-length|normalize-space|number|string|boolean|concat)\(`)
)

// c11Steps is the largest number of top-level location steps over the union branches.
func c11Steps(x string) int {
	best, depth, steps, any := 0, 0, 0, false
	flush := func() {
		if any {
			steps++
		}
		if steps > best {
			best = steps
		}
		steps, any = 0, false
	}
	for i := 0; i < len(x); i++ {
		ch := x[i]
		switch {
		case ch == '[':
			depth++
			any = true
		case ch == ']':
			depth--
		case ch == '(' || ch == ')':
			// parentheses of a filter expression at depth 0 do not nest steps out of sight
		case depth > 0:
		case ch == '|':
			flush()
		case ch == '/':
			if any {
				steps++
				any = false
			}
			if i+1 < len(x) && x[i+1] == '/' {
				i++
			}
		default:
			any = true
		}
	}
	flush()
	return best
}

// ---------------------------------------------------------------------------------------------
// check

func c11WalkIdr(doc *idr.Node, path []int) *idr.Node {
	n := doc
	for _, want := range path {
		c := n.FirstChild
		for c != nil && c.Type == idr.AttributeNode {
			c = c.NextSibling
		}
		for i := 0; i < want && c != nil; i++ {
			c = c.NextSibling
		}
		if c == nil {
			return nil
		}
		n = c
	}
	return n
}

func c11WalkXQ(doc *xmlquery.Node, path []int) *xmlquery.Node {
	n := doc
	for _, want := range path {
		c := n.FirstChild
		for i := 0; i < want && c != nil; i++ {
			c = c.NextSibling
		}
		if c == nil {
			return nil
		}
		n = c
	}
	return n
}

func checkC11(c c11Case) obs.Result {
	expr, err := xpath.Compile(c.XPath)
	if err != nil {
		return obs.Result{Excluded: "expression outside the engine's language (does not compile)"}
	}

	// reference DOM
	xd, err := xmlquery.Parse(strings.NewReader(c.Doc))
	if err != nil {
		return obs.Result{Excluded: "document rejected by the reference parser"}
	}
	c11Normalise(xd)
	tokShape, err := c11TokenShape(c.Doc)
	if err != nil {
		return obs.Result{Excluded: "document rejected by encoding/xml"}
	}
	var xs strings.Builder
	c11XQShape(xd, &xs)
	if xs.String() != tokShape {
		return obs.Result{Excluded: "reference parser did not build what the token stream says"}
	}

	// node tree under test
	sr, err := idr.NewXMLStreamReader(strings.NewReader(c.Doc), "/*")
	if err != nil {
		return obs.Violationf("NewXMLStreamReader: %v", err)
	}
	rootEl, err := sr.Read()
	if err != nil {
		return obs.Violationf("the node-tree reader rejects a document that encoding/xml and the reference DOM accept: %v\ndoc=%s", err, c.Doc)
	}
	docNode := rootEl.Parent
	if docNode == nil || docNode.Type != idr.DocumentNode {
		return obs.Violationf("the root element delivered by the reader has no document node above it\ndoc=%s", c.Doc)
	}

	ctxI, ctxX := c11WalkIdr(docNode, c.Ctx), c11WalkXQ(xd, c.Ctx)
	if ctxI == nil && ctxX == nil {
		return obs.Result{Excluded: "context path does not exist in the document"}
	}
	if ctxI == nil || ctxX == nil {
		return obs.Violationf("context path %v exists in only one of the two trees (idr: %v, reference: %v)\ndoc=%s", c.Ctx, ctxI != nil, ctxX != nil, c.Doc)
	}

	got, gotNodes := c11EvalIdr(ctxI, expr)
	ref1, fired := c11EvalXQ(ctxX, expr)
	ref2 := c11EvalRef(ctxX, expr)

	describe := func() string {
		return fmt.Sprintf("doc=%s\nxpath=%s\ncontext=%v (%s)", c.Doc, c.XPath, c.Ctx, c11IdrHit(ctxI))
	}

	judge, want := "xmlquery", ref1
	if fired != "" {
		judge, want = "second-reference", ref2
	} else if !c11Equal(ref1, ref2) {
		return obs.Violationf("HARNESS SELF-CHECK (not an omniparser defect): the second reference navigator disagrees with xmlquery although no known xmlquery quirk was touched\n%s\nxmlquery: %s\nsecond:   %s", describe(), ref1, ref2)
	}
	if !c11Equal(got, want) {
		return obs.Violationf("query result over the node tree differs from the reference DOM (judge: %s%s)\n%s\nnode tree: %s\nreference: %s",
			judge, map[bool]string{true: ", xmlquery quirk touched: " + fired, false: ""}[fired != ""], describe(), got, want)
	}

	// the Match* wrappers must tell the same story as the iterator
	if got.Panic == "" {
		if r := c11CheckWrappers(ctxI, c.XPath, expr, gotNodes); r != "" {
			return obs.Violationf("%s\n%s", r, describe())
		}
	}

	classes := []string{"judge=" + judge}
	if got.Panic != "" {
		classes = append(classes, "engine-panics-on-both")
		return obs.OK(false, classes...)
	}
	feat := func(name string, re *regexp.Regexp) bool {
		if re.MatchString(c.XPath) {
			classes = append(classes, name)
			return true
		}
		return false
	}
	usesAttr := feat("attribute-axis", c11ReAttr)
	usesRev := feat("reverse-or-sibling-axis", c11ReReverse)
	usesPos := feat("positional-predicate", c11RePos)
	feat("value-predicate", c11ReValue)
	feat("prefixed-name", c11RePrefix)
	feat("function", c11ReFunc)
	if strings.Contains(c.XPath, "|") {
		classes = append(classes, "union")
	}
	if len(c.Ctx) == 0 {
		classes = append(classes, "ctx=document")
	} else {
		classes = append(classes, "ctx=inner")
	}
	if strings.Contains(c.Doc, "xmlns") {
		classes = append(classes, "doc-namespaces")
	}
	nonEmpty := len(got.Hits) > 0
	if nonEmpty {
		classes = append(classes, "non-empty")
		kinds := map[string]bool{}
		for _, h := range got.Hits {
			if !kinds[h.Kind] {
				kinds[h.Kind] = true
				classes = append(classes, "selects="+h.Kind)
			}
		}
		if usesAttr {
			classes = append(classes, "non-empty+attribute-axis")
		}
		if usesRev {
			classes = append(classes, "non-empty+reverse-or-sibling-axis")
		}
	}
	steps := c11Steps(c.XPath)
	nt := nonEmpty && steps >= 2 && (usesAttr || usesRev || usesPos)
	return obs.OK(nt, classes...)
}

// c11CheckWrappers compares MatchAll / MatchAny / MatchSingle with the iterator's node list.
func c11CheckWrappers(ctx *idr.Node, xp string, expr *xpath.Expr, nodes []*idr.Node) (msg string) {
	defer func() {
		if p := recover(); p != nil {
			msg = fmt.Sprintf("Match* wrapper panics where QueryIter does not: %v", p)
		}
	}()
	if len(nodes) >= c11MaxHits {
		return ""
	}
	all, err := idr.MatchAll(ctx, xp, idr.DisableXPathCache)
	if err != nil {
		return fmt.Sprintf("MatchAll fails on an expression that compiles: %v", err)
	}
	same := len(all) == len(nodes)
	for i := 0; same && i < len(all); i++ {
		same = all[i] == nodes[i]
	}
	if !same {
		return fmt.Sprintf("MatchAll returns %d nodes, QueryIter over the same expression %d (or in another order)", len(all), len(nodes))
	}
	// and through the process-wide expression cache (the default of MatchAll): same expression text, same selection
	cached, err := idr.MatchAll(ctx, xp)
	if err != nil {
		return fmt.Sprintf("MatchAll (expression cache on) fails on an expression that compiles: %v", err)
	}
	same = len(cached) == len(nodes)
	for i := 0; same && i < len(cached); i++ {
		same = cached[i] == nodes[i]
	}
	if !same {
		return fmt.Sprintf("MatchAll with the expression cache on returns %d nodes, with the cache off %d (or in another order)", len(cached), len(nodes))
	}
	if any := idr.MatchAny(ctx, expr); any != (len(nodes) > 0) {
		return fmt.Sprintf("MatchAny = %v but the expression selects %d nodes", any, len(nodes))
	}
	one, err := idr.MatchSingle(ctx, xp, idr.DisableXPathCache)
	switch {
	case len(nodes) == 0 && !errors.Is(err, idr.ErrNoMatch):
		return fmt.Sprintf("MatchSingle on an empty selection: node=%v err=%v, want ErrNoMatch", one != nil, err)
	case len(nodes) == 1 && (err != nil || one != nodes[0]):
		return fmt.Sprintf("MatchSingle on a one-node selection: err=%v, same node=%v", err, one == nodes[0])
	case len(nodes) > 1 && !errors.Is(err, idr.ErrMoreThanExpected):
		return fmt.Sprintf("MatchSingle on a %d-node selection: err=%v, want ErrMoreThanExpected", len(nodes), err)
	}
	return ""
}

func TestC11(t *testing.T) {
	obs.Run(t, "C11", genC11, checkC11)
}
