package props

// C11 references.
//
// Primary reference (the one the property names): antchfx/xmlquery v1.3.1 over the same bytes,
// driven by the same compiled expression. Its tree is normalised first (synthetic declaration node
// removed, CharDataNode retagged TextNode). Its navigator is wrapped in a *probe* that forwards
// every call unchanged but notes when the evaluation touches one of the places where the xmlquery
// v1.3.1 navigator is known to deviate from the DOM semantics (these are xmlquery's defects, not
// the node tree's):
//   - Value() of the document node is "" instead of the concatenated text;
//   - NamespaceURL() of an attribute answers for the owner element;
//   - MoveToRoot() from an attribute position keeps the attribute index, so that nothing below the
//     root can be reached afterwards.
// When the probe fired, xmlquery's verdict is not used and the second reference judges alone.
//
// Second reference: c11RefNav, an own xpath.NodeNavigator with conventional semantics over the same
// normalised xmlquery tree (attributes addressed by index into Attr). It is cross-checked against
// xmlquery on every case where the probe stayed silent, so it is not a free-standing authority.

import (
	"encoding/xml"
	"fmt"
	"strings"

	"github.com/antchfx/xmlquery"
	"github.com/antchfx/xpath"
)

// c11Normalise removes declaration nodes and retags character data.
func c11Normalise(x *xmlquery.Node) {
	for c := x.FirstChild; c != nil; {
		next := c.NextSibling
		if c.Type == xmlquery.DeclarationNode {
			xmlquery.RemoveFromTree(c)
		} else {
			if c.Type == xmlquery.CharDataNode {
				c.Type = xmlquery.TextNode
			}
			c11Normalise(c)
		}
		c = next
	}
}

// c11XQText is the conventional string value of a reference node, computed by the harness.
func c11XQText(n *xmlquery.Node) string {
	var b strings.Builder
	var walk func(*xmlquery.Node)
	walk = func(x *xmlquery.Node) {
		switch x.Type {
		case xmlquery.TextNode, xmlquery.CharDataNode:
			b.WriteString(x.Data)
		case xmlquery.DocumentNode, xmlquery.ElementNode:
			for c := x.FirstChild; c != nil; c = c.NextSibling {
				walk(c)
			}
		}
	}
	walk(n)
	return b.String()
}

// c11XQShape / c11TokenShape serialise the reference tree and the raw token stream in the same
// way (local names, attribute local names and values, text); the reference DOM is only used when
// both agree, i.e. when xmlquery's own parser built what the tokens say.
func c11XQShape(n *xmlquery.Node, b *strings.Builder) {
	switch n.Type {
	case xmlquery.TextNode, xmlquery.CharDataNode:
		fmt.Fprintf(b, "T%q", n.Data)
	case xmlquery.ElementNode:
		fmt.Fprintf(b, "<%s", n.Data)
		for _, a := range n.Attr {
			fmt.Fprintf(b, " %s=%q", a.Name.Local, a.Value)
		}
		b.WriteString(">")
		for c := n.FirstChild; c != nil; c = c.NextSibling {
			c11XQShape(c, b)
		}
		b.WriteString("</>")
	case xmlquery.DocumentNode:
		for c := n.FirstChild; c != nil; c = c.NextSibling {
			c11XQShape(c, b)
		}
	default:
		fmt.Fprintf(b, "?%d", n.Type)
	}
}

func c11TokenShape(doc string) (string, error) {
	d := xml.NewDecoder(strings.NewReader(doc))
	var b strings.Builder
	for {
		tok, err := d.Token()
		if err != nil {
			if err.Error() == "EOF" {
				return b.String(), nil
			}
			return "", err
		}
		switch tk := tok.(type) {
		case xml.StartElement:
			fmt.Fprintf(&b, "<%s", tk.Name.Local)
			for _, a := range tk.Attr {
				fmt.Fprintf(&b, " %s=%q", a.Name.Local, a.Value)
			}
			b.WriteString(">")
		case xml.EndElement:
			b.WriteString("</>")
		case xml.CharData:
			fmt.Fprintf(&b, "T%q", string(tk))
		default:
			fmt.Fprintf(&b, "?%T", tok)
		}
	}
}

// ---------------------------------------------------------------------------------------------
// probe around the xmlquery navigator

type c11Probe struct {
	inner *xmlquery.NodeNavigator
	fired *string
}

func (p *c11Probe) fire(why string) {
	if *p.fired == "" {
		*p.fired = why
	}
}

func (p *c11Probe) NodeType() xpath.NodeType { return p.inner.NodeType() }
func (p *c11Probe) LocalName() string        { return p.inner.LocalName() }
func (p *c11Probe) Prefix() string           { return p.inner.Prefix() }
func (p *c11Probe) NamespaceURL() string {
	if p.inner.NodeType() == xpath.AttributeNode {
		p.fire("namespace-uri-of-attribute")
	}
	return p.inner.NamespaceURL()
}
func (p *c11Probe) Value() string {
	if t := p.inner.Current().Type; t == xmlquery.DocumentNode || t == xmlquery.DeclarationNode {
		p.fire("string-value-of-document")
	}
	return p.inner.Value()
}
func (p *c11Probe) Copy() xpath.NodeNavigator {
	return &c11Probe{inner: p.inner.Copy().(*xmlquery.NodeNavigator), fired: p.fired}
}
func (p *c11Probe) MoveToRoot() {
	if p.inner.NodeType() == xpath.AttributeNode {
		p.fire("move-to-root-from-attribute")
	}
	p.inner.MoveToRoot()
}
func (p *c11Probe) MoveToParent() bool        { return p.inner.MoveToParent() }
func (p *c11Probe) MoveToNextAttribute() bool { return p.inner.MoveToNextAttribute() }
func (p *c11Probe) MoveToChild() bool         { return p.inner.MoveToChild() }
func (p *c11Probe) MoveToFirst() bool         { return p.inner.MoveToFirst() }
func (p *c11Probe) MoveToNext() bool          { return p.inner.MoveToNext() }
func (p *c11Probe) MoveToPrevious() bool      { return p.inner.MoveToPrevious() }
func (p *c11Probe) MoveTo(o xpath.NodeNavigator) bool {
	op, ok := o.(*c11Probe)
	if !ok {
		return false
	}
	return p.inner.MoveTo(op.inner)
}

var _ xpath.NodeNavigator = &c11Probe{}

// ---------------------------------------------------------------------------------------------
// second reference navigator

type c11RefNav struct {
	root, cur *xmlquery.Node
	attr      int // -1: on cur itself
}

func (n *c11RefNav) NodeType() xpath.NodeType {
	switch n.cur.Type {
	case xmlquery.DocumentNode:
		return xpath.RootNode
	case xmlquery.ElementNode:
		if n.attr >= 0 {
			return xpath.AttributeNode
		}
		return xpath.ElementNode
	case xmlquery.TextNode, xmlquery.CharDataNode:
		return xpath.TextNode
	case xmlquery.CommentNode:
		return xpath.CommentNode
	}
	panic(fmt.Sprintf("c11RefNav: unexpected node type %d", n.cur.Type))
}

func (n *c11RefNav) LocalName() string {
	if n.attr >= 0 {
		return n.cur.Attr[n.attr].Name.Local
	}
	return n.cur.Data
}

func (n *c11RefNav) Prefix() string {
	if n.attr >= 0 {
		return n.cur.Attr[n.attr].Name.Space // xmlquery's parser stores the prefix here
	}
	return n.cur.Prefix
}

// NamespaceURL: an element answers with its URI; an attribute with the URI its own prefix is bound
// to in scope (none for an unprefixed attribute and for namespace declarations).
func (n *c11RefNav) NamespaceURL() string {
	if n.attr < 0 {
		return n.cur.NamespaceURI
	}
	p := n.cur.Attr[n.attr].Name.Space
	if p == "" || p == "xmlns" {
		return ""
	}
	for e := n.cur; e != nil; e = e.Parent {
		for _, a := range e.Attr {
			if a.Name.Space == "xmlns" && a.Name.Local == p {
				return a.Value
			}
		}
	}
	return ""
}

func (n *c11RefNav) Value() string {
	if n.attr >= 0 {
		return n.cur.Attr[n.attr].Value
	}
	return c11XQText(n.cur)
}

func (n *c11RefNav) Copy() xpath.NodeNavigator { c := *n; return &c }
func (n *c11RefNav) MoveToRoot()               { n.cur, n.attr = n.root, -1 }

func (n *c11RefNav) MoveToParent() bool {
	if n.attr >= 0 {
		n.attr = -1
		return true
	}
	if n.cur.Parent == nil {
		return false
	}
	n.cur = n.cur.Parent
	return true
}

func (n *c11RefNav) MoveToNextAttribute() bool {
	if n.cur.Type != xmlquery.ElementNode || n.attr+1 >= len(n.cur.Attr) {
		return false
	}
	n.attr++
	return true
}

func (n *c11RefNav) MoveToChild() bool {
	if n.attr >= 0 || n.cur.FirstChild == nil {
		return false
	}
	n.cur = n.cur.FirstChild
	return true
}

func (n *c11RefNav) MoveToFirst() bool {
	if n.attr >= 0 || n.cur.PrevSibling == nil {
		return false
	}
	for n.cur.PrevSibling != nil {
		n.cur = n.cur.PrevSibling
	}
	return true
}

func (n *c11RefNav) MoveToNext() bool {
	if n.attr >= 0 || n.cur.NextSibling == nil {
		return false
	}
	n.cur = n.cur.NextSibling
	return true
}

func (n *c11RefNav) MoveToPrevious() bool {
	if n.attr >= 0 || n.cur.PrevSibling == nil {
		return false
	}
	n.cur = n.cur.PrevSibling
	return true
}

func (n *c11RefNav) MoveTo(o xpath.NodeNavigator) bool {
	on, ok := o.(*c11RefNav)
	if !ok || on.root != n.root {
		return false
	}
	n.cur, n.attr = on.cur, on.attr
	return true
}

var _ xpath.NodeNavigator = &c11RefNav{}
