package gen

// JSON value generator shared by C04, C08 (and reusable by C02): DrawJSONValue draws a serialisable
// tree model (JSONValue) that remembers how each number and string was *written*; Render writes the
// text with an own writer (no encoding/json involved). Objects never hold the same (decoded) key twice.

import (
	"strconv"
	"strings"
	"unicode/utf16"

	"pgregory.net/rapid"
)

// JSON value kinds.
const (
	JSONNull = "null"
	JSONBool = "bool"
	JSONNum  = "num"
	JSONStr  = "str"
	JSONArr  = "arr"
	JSONObj  = "obj"
)

// JSONMember is one object member, in the order written.
type JSONMember struct {
	Key    string    `json:"key"`               // decoded key
	KeyLit string    `json:"key_lit,omitempty"` // key literal as written, quotes included ("" = encode Key)
	Val    JSONValue `json:"val"`
}

// JSONValue is one JSON value.
type JSONValue struct {
	Kind    string       `json:"kind"`
	Bool    bool         `json:"bool,omitempty"`
	Num     string       `json:"num,omitempty"` // number literal as written
	Str     string       `json:"str,omitempty"` // decoded string
	Lit     string       `json:"lit,omitempty"` // string literal as written, quotes included ("" = encode Str)
	Elems   []JSONValue  `json:"elems,omitempty"`
	Members []JSONMember `json:"members,omitempty"`
}

// JSONOpts selects what DrawJSONValue may produce. The zero value gives small plain values over the
// keys {a,b,c,r}, strings {x,y,xx}, small integers, booleans and null.
type JSONOpts struct {
	Keys     []string // key pool (decoded keys)
	Strings  []string // string pool
	Numbers  []string // number literal pool
	MaxDepth int      // deepest container nesting (default 5)
	MaxWidth int      // most members / elements per container (default 4)
	MaxNodes int      // budget of values (default 60)
	Hard     bool     // escapes (\uXXXX, surrogate pairs, \/ \b \f), unicode, hostile keys, all numeric forms
	// TopKinds restricts the kind of the top-level value (default: object mostly, array, sometimes a scalar).
	TopKinds []string
	// ScalarProb: chance in 10 that a nested value is a scalar (default 5).
	ScalarProb int
	// MinWidth: fewest members / elements per container (default 0, i.e. empty containers occur).
	MinWidth int
	// ScalarKinds restricts the scalar kinds drawn (default: null, bool, num, str).
	ScalarKinds []string
}

var (
	// JSONHardKeys are keys that look like something else to a tree that infers structure from names.
	JSONHardKeys = []string{"", " ", "0", "1", "[0]", "#attributes", "#text", "a", "b", "a b", "a.b", "é", "\"", "\\", "/", "\n",
		"\u0000", "null", "true", "*", "@k", "a/b", "\U0001F600", "A", "elem"}
	// JSONHardNumbers covers ints, fractions, exponents, -0, 2^53±1, the float64 range ends.
	JSONHardNumbers = []string{"0", "-0", "1", "-1", "10", "1.5", "-2.25", "0.1", "0.30000000000000004", "1e2", "1E2", "1e+2", "1e-2",
		"1.0", "100", "1e21", "1e-7", "123456789.125", "9007199254740991", "9007199254740992", "9007199254740993",
		"-9007199254740993", "1e308", "1.7976931348623157e308", "5e-324", "2.2250738585072014e-308", "1e-400",
		"123456789012345678901234567890", "0.000001", "0.0000001", "3.141592653589793", "1e22", "1e23", "0e0", "-0.0",
		"4", "3.9999999999999996", "18446744073709551616", "0.1e1", "12e-1",
		// around the int64 / uint64 limits (a whole number is not necessarily an int64)
		"9223372036854775807", "9223372036854775808", "-9223372036854775808", "-9223372036854775809", "9.5e18", "-9999999999999990000",
		"18446744073709551615", "9999999999999999999", "1e19", "4294967296", "2147483648", "-2147483649"}
	jsonHardStrings = [][2]string{ // decoded / literal ("" literal = encode minimally)
		{"", ""}, {"x", ""}, {" ", ""}, {" x ", ""}, {"\u00e9", ""}, {"\u00e9", jsonEscapeAll("\u00e9")}, {"\U0001F600", ""},
		{"\U0001F600", jsonEscapeAll("\U0001F600")}, {"\"", ""}, {"\\", ""}, {"/", `"\/"`}, {"/", ""}, {"\b\f\n\r\t", ""}, {"\n", ""},
		{"\u0000", ""}, {"\u001f", ""}, {"<&>", ""}, {"<", jsonEscapeAll("<")}, {"\u2028", ""}, {" ", jsonEscapeAll(" ")},
		{"1", ""}, {"true", ""}, {"null", ""}, {"[]", ""}, {"{}", ""}, {"a", jsonEscapeAll("a")}, {"\u4e2d\u6587", ""},
		{"\ufffd", "\"\\" + "ud800\""}, {"x\ufffd", "\"x\\" + "udc00\""}, {"\u007f", ""}, {"0", ""}, {"1.50", ""}, {"-0", ""},
		{"xx", ""}, {"y", ""}, {"A\u00e9", "\"\\" + "u0041\\" + "u00E9\""},
	}
)

type jsonGen struct {
	t     *rapid.T
	o     JSONOpts
	nodes int
}

func (o JSONOpts) withDefaults() JSONOpts {
	if len(o.Keys) == 0 {
		o.Keys = []string{"a", "b", "c", "r"}
		if o.Hard {
			o.Keys = JSONHardKeys
		}
	}
	if len(o.Strings) == 0 {
		o.Strings = []string{"x", "y", "xx", "x", "1"}
	}
	if len(o.Numbers) == 0 {
		o.Numbers = []string{"1", "2", "3", "4", "5", "6", "0", "1.5"}
		if o.Hard {
			o.Numbers = JSONHardNumbers
		}
	}
	if o.MaxDepth == 0 {
		o.MaxDepth = 5
	}
	if o.MaxWidth == 0 {
		o.MaxWidth = 4
	}
	if o.MaxNodes == 0 {
		o.MaxNodes = 60
	}
	if o.ScalarProb == 0 {
		o.ScalarProb = 5
	}
	return o
}

func (g *jsonGen) str(label string) (string, string) {
	if g.o.Hard && rapid.IntRange(0, 9).Draw(g.t, label+"hard") < 6 {
		p := rapid.SampledFrom(jsonHardStrings).Draw(g.t, label)
		return p[0], p[1]
	}
	return rapid.SampledFrom(g.o.Strings).Draw(g.t, label), ""
}

func (g *jsonGen) scalar() JSONValue {
	if len(g.o.ScalarKinds) > 0 {
		switch rapid.SampledFrom(g.o.ScalarKinds).Draw(g.t, "scalarkind") {
		case JSONNull:
			return JSONValue{Kind: JSONNull}
		case JSONBool:
			return JSONValue{Kind: JSONBool, Bool: rapid.Bool().Draw(g.t, "bool")}
		case JSONNum:
			return JSONValue{Kind: JSONNum, Num: rapid.SampledFrom(g.o.Numbers).Draw(g.t, "num")}
		default:
			s, lit := g.str("str")
			return JSONValue{Kind: JSONStr, Str: s, Lit: lit}
		}
	}
	switch rapid.IntRange(0, 9).Draw(g.t, "scalarkind") {
	case 0:
		return JSONValue{Kind: JSONNull}
	case 1:
		return JSONValue{Kind: JSONBool, Bool: rapid.Bool().Draw(g.t, "bool")}
	case 2, 3, 4, 5:
		return JSONValue{Kind: JSONNum, Num: rapid.SampledFrom(g.o.Numbers).Draw(g.t, "num")}
	default:
		s, lit := g.str("str")
		return JSONValue{Kind: JSONStr, Str: s, Lit: lit}
	}
}

func (g *jsonGen) value(depth int, kinds []string) JSONValue {
	g.nodes++
	var kind string
	switch {
	case len(kinds) > 0:
		kind = rapid.SampledFrom(kinds).Draw(g.t, "topkind")
	case depth >= g.o.MaxDepth || g.nodes >= g.o.MaxNodes:
		kind = "scalar"
	case rapid.IntRange(0, 9).Draw(g.t, "isscalar") < g.o.ScalarProb:
		kind = "scalar"
	case rapid.IntRange(0, 9).Draw(g.t, "isobj") < 6:
		kind = JSONObj
	default:
		kind = JSONArr
	}
	switch kind {
	case JSONObj:
		v := JSONValue{Kind: JSONObj, Members: []JSONMember{}}
		n := rapid.IntRange(g.o.MinWidth, g.o.MaxWidth).Draw(g.t, "nmembers")
		if depth <= 1 {
			// rapid's integer draws lean towards the low end; give the top levels some width
			if n2 := rapid.IntRange(g.o.MinWidth, g.o.MaxWidth).Draw(g.t, "nmembers2"); n2 > n {
				n = n2
			}
		}
		seen := map[string]bool{}
		for i := 0; i < n && (g.nodes < g.o.MaxNodes || i < g.o.MinWidth); i++ {
			k := rapid.SampledFrom(g.o.Keys).Draw(g.t, "key")
			if seen[k] {
				if len(v.Members) >= g.o.MinWidth {
					continue
				}
				for _, k2 := range g.o.Keys { // keep the promised minimum: first unused key
					if !seen[k2] {
						k = k2
						break
					}
				}
				if seen[k] {
					continue
				}
			}
			seen[k] = true
			m := JSONMember{Key: k}
			if g.o.Hard && rapid.IntRange(0, 9).Draw(g.t, "keyesc") == 0 {
				m.KeyLit = jsonEscapeAll(k)
			}
			m.Val = g.value(depth+1, nil)
			v.Members = append(v.Members, m)
		}
		return v
	case JSONArr:
		v := JSONValue{Kind: JSONArr, Elems: []JSONValue{}}
		hi := g.o.MaxWidth
		if depth <= 1 {
			hi += 2 // the usual shape of real inputs: a list of records near the top
		}
		n := rapid.IntRange(g.o.MinWidth, hi).Draw(g.t, "nelems")
		if depth <= 1 {
			if n2 := rapid.IntRange(g.o.MinWidth, hi).Draw(g.t, "nelems2"); n2 > n {
				n = n2
			}
		}
		for i := 0; i < n && (g.nodes < g.o.MaxNodes || i < g.o.MinWidth); i++ {
			v.Elems = append(v.Elems, g.value(depth+1, nil))
		}
		return v
	case JSONNull, JSONBool, JSONNum, JSONStr, "scalar":
		s := g.scalar()
		if kind != "scalar" && s.Kind != kind {
			// forced top-level scalar kind
			switch kind {
			case JSONNull:
				return JSONValue{Kind: JSONNull}
			case JSONBool:
				return JSONValue{Kind: JSONBool, Bool: rapid.Bool().Draw(g.t, "bool")}
			case JSONNum:
				return JSONValue{Kind: JSONNum, Num: rapid.SampledFrom(g.o.Numbers).Draw(g.t, "num")}
			default:
				str, lit := g.str("str")
				return JSONValue{Kind: JSONStr, Str: str, Lit: lit}
			}
		}
		return s
	}
	return JSONValue{Kind: JSONNull}
}

// DrawJSONValue draws one value.
func DrawJSONValue(t *rapid.T, o JSONOpts) JSONValue {
	g := &jsonGen{t: t, o: o.withDefaults()}
	kinds := g.o.TopKinds
	if len(kinds) == 0 {
		kinds = []string{JSONObj, JSONObj, JSONObj, JSONObj, JSONObj, JSONArr, JSONArr, JSONArr, JSONObj, JSONArr, JSONObj, "scalar"}
	}
	return g.value(0, kinds)
}

// JSONEncodeString writes a string literal with the minimal escapes JSON requires.
func JSONEncodeString(s string) string {
	var sb strings.Builder
	sb.WriteByte('"')
	for _, r := range s {
		switch {
		case r == '"':
			sb.WriteString(`\"`)
		case r == '\\':
			sb.WriteString(`\\`)
		case r == '\n':
			sb.WriteString(`\n`)
		case r == '\r':
			sb.WriteString(`\r`)
		case r == '\t':
			sb.WriteString(`\t`)
		case r == '\b':
			sb.WriteString(`\b`)
		case r == '\f':
			sb.WriteString(`\f`)
		case r < 0x20:
			sb.WriteString(`\u00`)
			sb.WriteString(strconv.FormatInt(int64(r)>>4, 16))
			sb.WriteString(strconv.FormatInt(int64(r)&0xf, 16))
		default:
			sb.WriteRune(r)
		}
	}
	sb.WriteByte('"')
	return sb.String()
}

// jsonEscapeAll writes every rune as \uXXXX (surrogate pairs above the BMP).
func jsonEscapeAll(s string) string {
	var sb strings.Builder
	sb.WriteByte('"')
	for _, u := range utf16.Encode([]rune(s)) {
		h := strconv.FormatInt(int64(u), 16)
		sb.WriteString(`\u` + strings.Repeat("0", 4-len(h)) + h)
	}
	sb.WriteByte('"')
	return sb.String()
}

func (v JSONValue) render(sb *strings.Builder, ws func() string) {
	switch v.Kind {
	case JSONNull:
		sb.WriteString("null")
	case JSONBool:
		sb.WriteString(strconv.FormatBool(v.Bool))
	case JSONNum:
		sb.WriteString(v.Num)
	case JSONStr:
		if v.Lit != "" {
			sb.WriteString(v.Lit)
		} else {
			sb.WriteString(JSONEncodeString(v.Str))
		}
	case JSONArr:
		sb.WriteString("[" + ws())
		for i, e := range v.Elems {
			if i > 0 {
				sb.WriteString("," + ws())
			}
			e.render(sb, ws)
		}
		sb.WriteString(ws() + "]")
	case JSONObj:
		sb.WriteString("{" + ws())
		for i, m := range v.Members {
			if i > 0 {
				sb.WriteString("," + ws())
			}
			if m.KeyLit != "" {
				sb.WriteString(m.KeyLit)
			} else {
				sb.WriteString(JSONEncodeString(m.Key))
			}
			sb.WriteString(ws() + ":" + ws())
			m.Val.render(sb, ws)
		}
		sb.WriteString(ws() + "}")
	}
}

// Render writes the value compactly.
func (v JSONValue) Render() string {
	var sb strings.Builder
	v.render(&sb, func() string { return "" })
	return sb.String()
}

// RenderSpaced writes the value with insignificant white space between tokens; style 0 is compact,
// 1 one space, 2 newline + space, 3 a rotating mix (deterministic).
func (v JSONValue) RenderSpaced(style int) string {
	var sb strings.Builder
	i := 0
	ws := func() string {
		switch style {
		case 1:
			return " "
		case 2:
			return "\n "
		case 3:
			i++
			return []string{"", " ", "\n", "\t", "\r\n", "  "}[i%6]
		}
		return ""
	}
	if style != 0 {
		sb.WriteString(ws())
	}
	v.render(&sb, ws)
	if style != 0 {
		sb.WriteString(ws())
	}
	return sb.String()
}

// JSONPathInfo describes one value inside a drawn JSON value for generators that want to aim an xpath
// at something that exists: the chain of member names from the top (array elements are "").
type JSONPathInfo struct {
	Chain []string
	Val   JSONValue
}

// Paths lists every nested value (not the top-level one) in document order.
func (v JSONValue) Paths() []JSONPathInfo {
	var out []JSONPathInfo
	var walk func(x JSONValue, chain []string)
	walk = func(x JSONValue, chain []string) {
		switch x.Kind {
		case JSONObj:
			for _, m := range x.Members {
				c := append(append([]string{}, chain...), m.Key)
				out = append(out, JSONPathInfo{Chain: c, Val: m.Val})
				walk(m.Val, c)
			}
		case JSONArr:
			for _, e := range x.Elems {
				c := append(append([]string{}, chain...), "")
				out = append(out, JSONPathInfo{Chain: c, Val: e})
				walk(e, c)
			}
		}
	}
	walk(v, nil)
	return out
}

// Text is the string-value an xpath engine sees for the value: the concatenation of all scalar texts
// in document order (null is "", numbers as written when they are plain integers / short decimals).
func (v JSONValue) Text() string {
	switch v.Kind {
	case JSONBool:
		return strconv.FormatBool(v.Bool)
	case JSONNum:
		return v.Num
	case JSONStr:
		return v.Str
	case JSONArr:
		var sb strings.Builder
		for _, e := range v.Elems {
			sb.WriteString(e.Text())
		}
		return sb.String()
	case JSONObj:
		var sb strings.Builder
		for _, m := range v.Members {
			sb.WriteString(m.Val.Text())
		}
		return sb.String()
	}
	return ""
}

// TruePreds lists stream-target-class predicates that hold for the value (plain pools only: the
// number literals must be written the way the tree prints them, e.g. "1", "1.5").
func (p JSONPathInfo) TruePreds(keys []string, numeric bool) []string {
	var out []string
	v := p.Val
	txt := v.Text()
	quotable := !strings.ContainsAny(txt, "'\"") && len(txt) <= 12
	switch v.Kind {
	case JSONObj:
		has := map[string]bool{}
		for _, m := range v.Members {
			has[m.Key] = true
		}
		for _, k := range keys {
			if k == "" || strings.ContainsAny(k, " /*[]@'\":.#") {
				continue
			}
			if has[k] {
				out = append(out, "["+k+"]")
			} else {
				out = append(out, "[not("+k+")]")
			}
		}
		out = append(out, "[count(*)="+strconv.Itoa(len(v.Members))+"]")
		if len(v.Members) > 0 {
			out = append(out, "[*]")
		} else {
			out = append(out, "[not(*)]")
		}
	case JSONArr:
		out = append(out, "[count(*)="+strconv.Itoa(len(v.Elems))+"]")
		if len(v.Elems) > 0 {
			out = append(out, "[*]")
		} else {
			out = append(out, "[not(*)]")
		}
	default:
		out = append(out, "[not(*)]")
		if quotable {
			out = append(out, "[.='"+txt+"']", "[.='"+txt+"']")
		}
		if numeric && v.Kind == JSONNum {
			out = append(out, "[.="+v.Num+"]", "[. <= "+v.Num+"]", "[.>="+v.Num+"]", "[. < 4 or . >= 4]")
		}
	}
	if quotable && txt != "" && v.Kind != JSONNum {
		out = append(out, "[contains(.,'"+txt[:1]+"')]")
	}
	return out
}
