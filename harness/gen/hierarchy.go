package gen

// Hierarchy generator for C05: declaration trees (EDI segment_declarations, csv2 records,
// fixedlength2 envelopes), unit sequences near a valid instance, and the three renderers.

import (
	"encoding/json"
	"fmt"
	"sort"
	"strings"

	"pgregory.net/rapid"

	"verifharness/model"
)

// Hierarchy is a declaration hierarchy for one of the three hierarchical flat formats.
type Hierarchy struct {
	Format string         `json:"format"` // edi | csv2 | fixedlength2
	Top    []*model.HDecl `json:"top"`
	// ImplicitTarget: csv2 / fixedlength2 only, and only when Top[0] is the target: `is_target` is not
	// written (documented default: the first record/envelope is the target).
	ImplicitTarget bool `json:"implicit_target,omitempty"`
	// Pad (fixedlength2 only) > 0: every line starts with Pad dots, so that the record type code is not in column 1, and the
	// header / footer / line_pattern regexes are written WITHOUT the '^' anchor (a line holds exactly one capital letter,
	// its tag, so the unanchored literal matches the same lines, at offset Pad).
	Pad int `json:"pad,omitempty"`
}

func (h Hierarchy) anchor() string {
	if h.Format == "fixedlength2" && h.Pad > 0 {
		return ""
	}
	return "^"
}

// HRender says how a unit sequence is written to bytes.
type HRender struct {
	SegDelim    string `json:"seg_delim,omitempty"`   // edi: segment delimiter
	IgnoreCRLF  bool   `json:"ignore_crlf,omitempty"` // edi
	EOL         string `json:"eol"`                   // flat: line end ("\n" | "\r\n"); edi: see RenderUnits
	Blank       []int  `json:"blank,omitempty"`       // Blank[i]: empty lines written before unit i (last entry: after the last unit)
	NoFinalTerm bool   `json:"no_final_term,omitempty"`
	// CycleBlank: Blank is applied cyclically to unit sequences longer than it (long inputs)
	CycleBlank bool `json:"cycle_blank,omitempty"`
}

// HOpts returns the model options of the hierarchy's format.
func (h Hierarchy) HOpts() model.HOpts {
	if h.Format == "edi" {
		return model.HOpts{DefMin: 1, DefMax: 1, RootRepeats: true}
	}
	return model.HOpts{DefMin: 0, DefMax: -1}
}

// Walk visits all declarations depth first.
func (h Hierarchy) Walk(f func(d *model.HDecl, depth int, underGroup bool)) {
	var rec func(ds []*model.HDecl, depth int, ug bool)
	rec = func(ds []*model.HDecl, depth int, ug bool) {
		for _, d := range ds {
			f(d, depth, ug)
			rec(d.Children, depth+1, ug || d.Group)
		}
	}
	rec(h.Top, 1, false)
}

// Alphabet returns the sorted set of unit tags the hierarchy mentions (headers and footers).
func (h Hierarchy) Alphabet() []string {
	set := map[string]bool{}
	h.Walk(func(d *model.HDecl, _ int, _ bool) {
		if !d.Group && d.Rows == 0 {
			set[d.Tag] = true
			if d.Footer != "" {
				set[d.Footer] = true
			}
		}
	})
	var out []string
	for k := range set {
		out = append(out, k)
	}
	sort.Strings(out)
	return out
}

func hierIntPtr(v int) *int { return &v }

type hierDrawer struct {
	t      *rapid.T
	format string
	tags   []string
	budget int
	mins   []int
	n      int
	used   map[string]int
}

// pickTag draws a unit tag: mostly one of the least used so far (fewer accidental collisions, so
// that more hierarchies are satisfiable), otherwise any (repeated names at different positions are
// the documented ambiguity and must stay frequent).
func (g *hierDrawer) pickTag(what string) string {
	if g.used == nil {
		g.used = map[string]int{}
	}
	pool := g.tags
	if rapid.IntRange(0, 9).Draw(g.t, g.label(what+"Fresh")) < 6 {
		least := -1
		for _, tg := range g.tags {
			if least < 0 || g.used[tg] < least {
				least = g.used[tg]
			}
		}
		pool = nil
		for _, tg := range g.tags {
			if g.used[tg] == least {
				pool = append(pool, tg)
			}
		}
	}
	tg := rapid.SampledFrom(pool).Draw(g.t, g.label(what))
	g.used[tg]++
	return tg
}

func (g *hierDrawer) label(s string) string { g.n++; return fmt.Sprintf("%s%d", s, g.n) }

func (g *hierDrawer) decl(depth int, preferGroup bool) *model.HDecl {
	t := g.t
	g.budget--
	d := &model.HDecl{}
	canNest := depth < 4 && g.budget > 0
	groupOdds := 3
	if preferGroup {
		groupOdds = 2
	}
	if canNest && rapid.IntRange(0, groupOdds-1).Draw(t, g.label("isGroup")) == 0 {
		d.Group = true
		d.Name = rapid.SampledFrom(g.tags).Draw(t, g.label("gname"))
		n := rapid.IntRange(1, 3).Draw(t, g.label("gkids"))
		for i := 0; i < n && g.budget > 0; i++ {
			d.Children = append(d.Children, g.decl(depth+1, i == 0))
		}
	} else {
		d.Tag = g.pickTag("tag")
		d.Name = d.Tag
		d.Cols = 1
		if g.format != "edi" {
			switch k := rapid.IntRange(0, 9).Draw(t, g.label("kind")); {
			case k >= 8: // rows-based
				d.Tag = ""
				d.Name = rapid.SampledFrom(g.tags).Draw(t, g.label("rname"))
				d.Rows = rapid.IntRange(1, 2).Draw(t, g.label("rows"))
				d.ExplRows = d.Rows != 1 || rapid.Bool().Draw(t, g.label("explRows"))
				d.Cols = rapid.IntRange(1, 3).Draw(t, g.label("cols"))
			case k >= 6: // header + footer
				d.Footer = rapid.SampledFrom(g.tags).Draw(t, g.label("footer"))
				d.Cols = rapid.IntRange(1, 3).Draw(t, g.label("cols"))
				d.LastCol = rapid.IntRange(0, 3).Draw(t, g.label("lastCol")) != 0
			}
		}
		if canNest && rapid.IntRange(0, 2).Draw(t, g.label("hasKids")) == 0 {
			n := rapid.IntRange(1, 2).Draw(t, g.label("kids"))
			for i := 0; i < n && g.budget > 0; i++ {
				d.Children = append(d.Children, g.decl(depth+1, false))
			}
		}
	}
	mn := rapid.SampledFrom(g.mins).Draw(t, g.label("min"))
	mx := rapid.SampledFrom([]int{1, 2, 3, -1}).Draw(t, g.label("max"))
	if mx >= 0 && mn > mx {
		mn = mx
	}
	defMin, defMax := 0, -1
	if g.format == "edi" {
		defMin, defMax = 1, 1
	}
	if mn != defMin || rapid.Bool().Draw(t, g.label("explMin")) {
		d.Min = hierIntPtr(mn)
	}
	if mx != defMax || rapid.Bool().Draw(t, g.label("explMax")) {
		d.Max = hierIntPtr(mx)
	}
	return d
}

// HierOpts sizes DrawHierarchy.
type HierOpts struct {
	Tags     []string // unit tags / node names
	MaxDecls int      // default 7
	Mins     []int    // distribution of `min` (default 0,0,1,1,1,2)
}

// DrawHierarchy draws a hierarchy of at most o.MaxDecls (7) declarations, depth <= 4, names from
// o.Tags, min in {0,1,2}, max in {1,2,3,unbounded}, min <= max, exactly one target at any node.
func DrawHierarchy(t *rapid.T, format string, o HierOpts) Hierarchy {
	if o.MaxDecls == 0 {
		o.MaxDecls = 7
	}
	if o.Mins == nil {
		o.Mins = []int{0, 0, 1, 1, 1, 2}
	}
	tags := o.Tags
	g := &hierDrawer{t: t, format: format, tags: tags, budget: o.MaxDecls, mins: o.Mins}
	h := Hierarchy{Format: format}
	ntop := rapid.IntRange(1, 3).Draw(t, "ntop")
	for i := 0; i < ntop && g.budget > 0; i++ {
		h.Top = append(h.Top, g.decl(1, false))
	}
	var all []*model.HDecl
	h.Walk(func(d *model.HDecl, _ int, _ bool) { all = append(all, d) })
	// targets deeper in the tree are as likely as the top ones: index drawn uniformly
	all[rapid.IntRange(0, len(all)-1).Draw(t, "target")].Target = true
	if format != "edi" && h.Top[0].Target {
		h.ImplicitTarget = rapid.Bool().Draw(t, "implicitTarget")
	}
	if format == "fixedlength2" {
		h.Pad = rapid.SampledFrom([]int{0, 0, 0, 1, 3}).Draw(t, "pad")
	}
	return h
}

// DeepTags is the alphabet of DrawDeepHierarchy.
var DeepTags = []string{"A", "B", "C", "D", "E", "F", "G", "H", "I", "J", "K", "L", "M", "N", "O", "P"}

// DrawDeepHierarchy draws a chain of 7..15 nested declarations (one child per level, every level min 1, so that a valid
// instance reaches the deepest level): the readers keep one stack frame per nesting level and grow that stack (initial
// capacity 10) while reading. Levels are segments/records with their own tag; some levels are groups (whose first member
// is then the next level). The target sits at any level.
func DrawDeepHierarchy(t *rapid.T, format string) Hierarchy {
	depth := rapid.IntRange(7, 15).Draw(t, "deepDepth")
	h := Hierarchy{Format: format}
	var all []*model.HDecl
	var parent *model.HDecl
	tag := 0
	for lvl := 0; lvl < depth; lvl++ {
		d := &model.HDecl{}
		last := lvl == depth-1
		if !last && lvl > 0 && rapid.IntRange(0, 3).Draw(t, fmt.Sprintf("deepGroup%d", lvl)) == 0 {
			d.Group = true
			d.Name = "G" + DeepTags[tag%len(DeepTags)]
		} else {
			d.Tag = DeepTags[tag%len(DeepTags)]
			d.Name = d.Tag
			d.Cols = 1
			tag++
		}
		d.Min = hierIntPtr(1)
		mx := rapid.SampledFrom([]int{1, 1, 2, -1}).Draw(t, fmt.Sprintf("deepMax%d", lvl))
		d.Max = hierIntPtr(mx)
		if parent == nil {
			h.Top = append(h.Top, d)
		} else {
			parent.Children = append(parent.Children, d)
		}
		parent = d
		all = append(all, d)
	}
	all[rapid.IntRange(0, len(all)-1).Draw(t, "deepTarget")].Target = true
	return h
}

// DrawDeepUnits draws a valid instance of a deep chain (optionally with one edit), at most 40 units.
func DrawDeepUnits(t *rapid.T, h Hierarchy) []model.HUnit {
	g := &hierDrawer{t: t, format: h.Format, tags: DeepTags}
	var seq []string
	g.instance(h.Top, h.HOpts(), &seq, rapid.Bool().Draw(t, "deepLean"))
	if len(seq) > 0 && rapid.IntRange(0, 3).Draw(t, "deepEdit") == 0 {
		p := rapid.IntRange(0, len(seq)-1).Draw(t, "deepEditPos")
		switch rapid.IntRange(0, 2).Draw(t, "deepEditOp") {
		case 0:
			seq = append(seq[:p], seq[p+1:]...)
		case 1:
			seq = append(seq[:p+1], append([]string{seq[p]}, seq[p+1:]...)...)
		default:
			seq = append(seq[:p], append([]string{"X"}, seq[p:]...)...)
		}
	}
	if len(seq) > 40 {
		seq = seq[:40]
	}
	return HUnitsOf(seq)
}

// DrawLongUnits draws a long unit sequence (its text is about 4100-9000 bytes, beyond the readers' 4096-byte buffers): the
// first top-level declaration is made repeatable without bound and valid instances of the hierarchy are concatenated.
func DrawLongUnits(t *rapid.T, h Hierarchy, tags []string) []model.HUnit {
	g := &hierDrawer{t: t, format: h.Format, tags: tags}
	if len(h.Top) > 0 {
		h.Top[0].Max = hierIntPtr(-1)
	}
	want := rapid.SampledFrom([]int{4100, 4300, 8300, 9000}).Draw(t, "longBytes")
	var seq []string
	for rounds := 0; rounds < 3000 && len(seq)*5 < want; rounds++ {
		var one []string
		g.instance(h.Top, h.HOpts(), &one, rounds%2 == 1)
		if len(one) == 0 {
			one = []string{tags[rounds%len(tags)]}
		}
		seq = append(seq, one...)
	}
	if len(seq) > 2400 {
		seq = seq[:2400]
	}
	return HUnitsOf(seq)
}

// DrawHRender draws how the units are written.
func DrawHRender(t *rapid.T, format string, nUnits int) HRender {
	r := HRender{EOL: "\n"}
	if format == "edi" {
		switch rapid.IntRange(0, 5).Draw(t, "ediDelims") {
		case 0, 1:
			r.SegDelim = "~"
			r.EOL = ""
		case 2:
			r.SegDelim = "\n"
			r.EOL = rapid.SampledFrom([]string{"", "", "\r"}).Draw(t, "strayCR") // "\r" = stray CR before the LF delimiter
		case 3:
			r.SegDelim = "~"
			r.IgnoreCRLF = true
			r.EOL = rapid.SampledFrom([]string{"\n", "\r\n", ""}).Draw(t, "ediEOL")
		case 4:
			r.SegDelim = "\r\n"
			r.EOL = ""
		default:
			r.SegDelim = rapid.SampledFrom([]string{"'", "~~", "§", "|\n"}).Draw(t, "ediSeg")
			r.EOL = ""
		}
	} else {
		r.EOL = rapid.SampledFrom([]string{"\n", "\n", "\r\n"}).Draw(t, "eol")
	}
	if rapid.IntRange(0, 2).Draw(t, "blanks") == 0 {
		r.Blank = make([]int, nUnits+1)
		for i := range r.Blank {
			if rapid.IntRange(0, 2).Draw(t, "blankHere") == 0 {
				r.Blank[i] = rapid.IntRange(1, 2).Draw(t, "blankN")
			}
		}
	}
	r.NoFinalTerm = nUnits > 0 && rapid.IntRange(0, 6).Draw(t, "noFinalTerm") == 0
	return r
}

// instance writes a valid instance of the declaration list (valid by construction; the greedy
// matcher may still read it differently when names repeat). lean: every declaration exactly its
// minimum, no filler lines, no draws.
func (g *hierDrawer) instance(ds []*model.HDecl, o model.HOpts, out *[]string, lean bool) {
	t := g.t
	any := append([]string{"X"}, g.tags...)
	for _, d := range ds {
		mn, mx := o.DefMin, o.DefMax
		if d.Min != nil {
			mn = *d.Min
		}
		if d.Max != nil {
			mx = *d.Max
		}
		if mx < 0 {
			mx = mn + 3
		}
		cnt := mn
		if !lean {
			if cnt == 0 && rapid.IntRange(0, 3).Draw(t, g.label("optPresent")) != 0 {
				cnt = 1
			}
			cnt += rapid.SampledFrom([]int{0, 0, 1, 1, 2, 3}).Draw(t, g.label("cnt"))
			if cnt > mx {
				cnt = mx
			}
		}
		for i := 0; i < cnt && len(*out) < 40; i++ {
			if !d.Group {
				switch {
				case d.Rows > 0:
					for k := 0; k < d.Rows; k++ {
						if lean {
							*out = append(*out, "X")
						} else {
							*out = append(*out, rapid.SampledFrom(any).Draw(t, g.label("rowTag")))
						}
					}
				case d.Footer != "":
					*out = append(*out, d.Tag)
					if d.Footer != d.Tag {
						if !lean {
							fill := rapid.IntRange(0, 2).Draw(t, g.label("fill"))
							for k := 0; k < fill; k++ {
								*out = append(*out, rapid.SampledFrom(any).Draw(t, g.label("fillTag")))
							}
						}
						*out = append(*out, d.Footer)
					}
				default:
					*out = append(*out, d.Tag)
				}
			}
			g.instance(d.Children, o, out, lean)
		}
	}
}

// DrawUnits draws a unit sequence of length <= 12 over tags plus the undeclared "X": mostly a
// valid instance of the hierarchy with up to two insert / delete / duplicate / swap edits,
// otherwise a uniformly random sequence. Unit ids are assigned by final position.
func DrawUnits(t *rapid.T, h Hierarchy, tags []string) []model.HUnit {
	g := &hierDrawer{t: t, format: h.Format, tags: tags}
	all := append([]string{"X"}, tags...)
	if h.Format == "csv2" {
		// "_": a line that consists of the delimiter only (two empty fields) - an input unit like any other: it fits no
		// header, and it is a row of a rows-based record
		all = append(all, "_")
	}
	var seq []string
	switch mode := rapid.IntRange(0, 9).Draw(t, "unitsMode"); {
	case mode == 0:
		seq = rapid.SliceOfN(rapid.SampledFrom(all), 0, 12).Draw(t, "randomUnits")
	default:
		g.instance(h.Top, h.HOpts(), &seq, false)
		if len(seq) > 12 {
			seq = nil
			g.instance(h.Top, h.HOpts(), &seq, true)
		}
		if h.Format == "edi" && len(seq) <= 6 && rapid.IntRange(0, 3).Draw(t, "secondRound") == 0 {
			g.instance(h.Top, h.HOpts(), &seq, len(seq) > 3)
		}
		edits := rapid.SampledFrom([]int{0, 0, 0, 0, 0, 1, 1, 2}).Draw(t, "edits")
		for e := 0; e < edits; e++ {
			op := rapid.IntRange(0, 3).Draw(t, g.label("op"))
			if len(seq) == 0 {
				op = 0
			}
			switch op {
			case 0: // insert
				p := rapid.IntRange(0, len(seq)).Draw(t, g.label("pos"))
				u := rapid.SampledFrom(all).Draw(t, g.label("ins"))
				seq = append(seq[:p], append([]string{u}, seq[p:]...)...)
			case 1: // delete
				p := rapid.IntRange(0, len(seq)-1).Draw(t, g.label("pos"))
				seq = append(seq[:p], seq[p+1:]...)
			case 2: // duplicate
				p := rapid.IntRange(0, len(seq)-1).Draw(t, g.label("pos"))
				seq = append(seq[:p+1], append([]string{seq[p]}, seq[p+1:]...)...)
			default: // swap with the next
				if len(seq) >= 2 {
					p := rapid.IntRange(0, len(seq)-2).Draw(t, g.label("pos"))
					seq[p], seq[p+1] = seq[p+1], seq[p]
				}
			}
		}
	}
	if len(seq) > 12 {
		seq = seq[:12]
	}
	return HUnitsOf(seq)
}

// HUnitsOf assigns position ids u00, u01, ... to a tag sequence.
func HUnitsOf(tags []string) []model.HUnit {
	us := make([]model.HUnit, len(tags))
	for i, tg := range tags {
		us[i] = model.HUnit{Tag: tg, ID: fmt.Sprintf("u%02d", i%100)} // (three characters: the fixed-length id column is 3 wide)
		if tg == "_" {
			us[i].ID = "" // rendered as a bare delimiter: no tag, no id
		}
	}
	return us
}

type hierObj = map[string]interface{}

func (h Hierarchy) declJSON(d *model.HDecl, top0 bool) hierObj {
	o := hierObj{"name": d.Name}
	kids := "child_segments"
	switch h.Format {
	case "csv2":
		kids = "child_records"
	case "fixedlength2":
		kids = "child_envelopes"
	}
	if d.Min != nil {
		o["min"] = *d.Min
	}
	if d.Max != nil {
		o["max"] = *d.Max
	}
	if d.Target && !(top0 && h.ImplicitTarget) {
		o["is_target"] = true
	}
	if d.Group {
		o["type"] = map[string]string{"edi": "segment_group", "csv2": "record_group", "fixedlength2": "envelope_group"}[h.Format]
	} else {
		switch h.Format {
		case "edi":
			o["elements"] = []hierObj{{"name": "i1", "index": 1}}
		case "csv2":
			if d.Rows > 0 {
				if d.ExplRows {
					o["rows"] = d.Rows
				}
			} else {
				o["header"] = "^" + d.Tag + ","
				if d.Footer != "" {
					o["footer"] = "^" + d.Footer + ","
				}
			}
			var cols []hierObj
			for i := 1; i <= d.Cols; i++ {
				c := hierObj{"name": fmt.Sprintf("i%d", i), "index": 2}
				if !(i == 1 && d.Cols == 1 && d.Rows <= 1 && d.Footer == "") {
					c["line_index"] = i
				}
				cols = append(cols, c)
			}
			if d.LastCol {
				cols = append(cols, hierObj{"name": "f", "index": 2, "line_pattern": "^" + d.Footer + ","})
			}
			o["columns"] = cols
		case "fixedlength2":
			if d.Rows > 0 {
				if d.ExplRows {
					o["rows"] = d.Rows
				}
			} else {
				o["header"] = h.anchor() + d.Tag
				if d.Footer != "" {
					o["footer"] = h.anchor() + d.Footer
				}
			}
			var cols []hierObj
			for i := 1; i <= d.Cols; i++ {
				c := hierObj{"name": fmt.Sprintf("i%d", i), "start_pos": 2 + h.Pad, "length": 3}
				if !(i == 1 && d.Cols == 1 && d.Rows <= 1 && d.Footer == "") {
					c["line_index"] = i
				}
				cols = append(cols, c)
			}
			if d.LastCol {
				cols = append(cols, hierObj{"name": "f", "start_pos": 2 + h.Pad, "length": 3, "line_pattern": h.anchor() + d.Footer})
			}
			o["columns"] = cols
		}
	}
	if len(d.Children) > 0 {
		var cs []hierObj
		for _, c := range d.Children {
			cs = append(cs, h.declJSON(c, false))
		}
		o[kids] = cs
	}
	return o
}

// FileDecl returns the file_declaration object for the hierarchy.
func (h Hierarchy) FileDecl(r HRender) map[string]interface{} {
	var ds []hierObj
	for i, d := range h.Top {
		ds = append(ds, h.declJSON(d, i == 0))
	}
	switch h.Format {
	case "edi":
		fd := hierObj{"segment_delimiter": r.SegDelim, "element_delimiter": "*", "segment_declarations": ds}
		if r.IgnoreCRLF {
			fd["ignore_crlf"] = true
		}
		return fd
	case "csv2":
		return hierObj{"delimiter": ",", "records": ds}
	default:
		return hierObj{"envelopes": ds}
	}
}

// Schema returns a complete schema whose FINAL_OUTPUT copies the delivered target tree.
func (h Hierarchy) Schema(r HRender) string {
	doc := hierObj{
		"parser_settings":        hierObj{"version": "omni.2.1", "file_format_type": h.Format},
		"file_declaration":       h.FileDecl(r),
		"transform_declarations": hierObj{"FINAL_OUTPUT": hierObj{"custom_func": hierObj{"name": "copy"}}},
	}
	b, err := json.Marshal(doc)
	if err != nil {
		panic(err)
	}
	return string(b)
}

// UnitText is the text of one unit without its terminator.
func (h Hierarchy) UnitText(u model.HUnit) string {
	switch h.Format {
	case "edi":
		return u.Tag + "*" + u.ID
	case "csv2":
		if u.Tag == "_" {
			return ","
		}
		return u.Tag + "," + u.ID
	default:
		return strings.Repeat(".", h.Pad) + u.Tag + u.ID
	}
}

// RenderUnits writes the units.
//
// csv2 / fixedlength2: one line per unit ended by r.EOL; r.Blank adds empty lines (skipped by both
// readers by documentation); r.NoFinalTerm leaves the last line unterminated.
//
// edi: unit + r.SegDelim; with "\n" as delimiter r.EOL "\r" puts a stray CR before the delimiter
// (dropped by documentation) and blank "lines" are CR/LF-only tokens (skipped); with ignore_crlf
// r.EOL and the blank lines are CR/LF runs after the delimiter (removed before tokenizing); with any
// other delimiter nothing is added. r.NoFinalTerm drops the final delimiter and everything after it.
func (h Hierarchy) RenderUnits(units []model.HUnit, r HRender) []byte {
	var sb strings.Builder
	blank := func(i int) int {
		if i < len(r.Blank) {
			return r.Blank[i]
		}
		if r.CycleBlank && len(r.Blank) > 0 {
			return r.Blank[i%len(r.Blank)]
		}
		return 0
	}
	last := len(units) - 1
	if h.Format != "edi" {
		for i, u := range units {
			sb.WriteString(strings.Repeat(r.EOL, blank(i)))
			sb.WriteString(h.UnitText(u))
			if i == last && r.NoFinalTerm {
				return []byte(sb.String())
			}
			sb.WriteString(r.EOL)
		}
		sb.WriteString(strings.Repeat(r.EOL, blank(len(units))))
		return []byte(sb.String())
	}
	blankTok := ""
	switch {
	case r.SegDelim == "\n":
		blankTok = r.EOL + "\n" // "\n" or "\r\n": a CR/LF-only token
	case r.IgnoreCRLF:
		blankTok = "\r\n"
	}
	for i, u := range units {
		sb.WriteString(strings.Repeat(blankTok, blank(i)))
		sb.WriteString(h.UnitText(u))
		if i == last && r.NoFinalTerm {
			return []byte(sb.String())
		}
		if r.SegDelim == "\n" {
			sb.WriteString(r.EOL) // stray CR
		}
		sb.WriteString(r.SegDelim)
		if r.IgnoreCRLF {
			sb.WriteString(r.EOL)
		}
	}
	sb.WriteString(strings.Repeat(blankTok, blank(len(units))))
	return []byte(sb.String())
}
