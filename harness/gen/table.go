package gen

// Logical tables for the delimited / fixed-length fidelity property (C06): a Table is at the same time
// the generated case and the reference model. It is rendered to bytes by an own RFC-4180 writer / an
// own fixed-width renderer (Render), turned into a pass-through schema (Schema), and evaluated by a
// deliberately naive model (Expect) that is written from doc/csv_in_depth.md, doc/csv2_in_depth.md,
// doc/fixedlength_in_depth.md and doc/fixedlength2_in_depth.md and shares no code with the readers.
//
// Everything random is drawn in DrawTable; Schema, Render and Expect are pure functions of the Table.

import (
	"bytes"
	"encoding/json"
	"fmt"
	"regexp"
	"strings"
	"unicode/utf8"

	"pgregory.net/rapid"
)

// TStr describes a string compactly: Head + N runes cycling through Fill + Tail. Long lines and
// fields (around 4 KiB, 8 KiB, 64 KiB) stay a few dozen bytes in a saved case.
type TStr struct {
	Head string `json:"h,omitempty"`
	Fill string `json:"f,omitempty"`
	N    int    `json:"n,omitempty"`
	Tail string `json:"t,omitempty"`
}

// String expands the description.
func (s TStr) String() string {
	if s.N <= 0 || s.Fill == "" {
		return s.Head + s.Tail
	}
	p := []rune(s.Fill)
	var b strings.Builder
	b.Grow(len(s.Head) + len(s.Tail) + s.N*utf8.UTFMax)
	b.WriteString(s.Head)
	for i := 0; i < s.N; i++ {
		b.WriteRune(p[i%len(p)])
	}
	b.WriteString(s.Tail)
	return b.String()
}

// TableCol is one declared column.
type TableCol struct {
	Name        string `json:"name"`                   // node name, xpath friendly
	Label       string `json:"label,omitempty"`        // csv: the column's "name" (header label) when it differs from Name (then Name is the alias)
	Index       int    `json:"index,omitempty"`        // csv2: explicit 1-based field index, 0 = omitted (doc: previous index + 1, first = 1)
	Start       int    `json:"start,omitempty"`        // fixed: start_pos (1-based, runes)
	Length      int    `json:"length,omitempty"`       // fixed: length (runes)
	LineIndex   int    `json:"line_index,omitempty"`   // csv2 / fixedlength2, 0 = none
	LinePattern string `json:"line_pattern,omitempty"` // "" = none
}

func (c TableCol) label() string {
	if c.Label != "" {
		return c.Label
	}
	return c.Name
}

// TableLine is one logical data row: for csv/csv2 a list of fields (which may contain line feeds, so
// one row can span several physical lines), for the fixed-length formats exactly one field, the line.
type TableLine struct {
	Fields []TStr `json:"f"`
	Quote  []int  `json:"q,omitempty"`     // csv: indexes of fields the writer quotes although it need not
	Blank  int    `json:"blank,omitempty"` // number of blank lines written after this row
}

// Table is a C06 case.
type Table struct {
	Format    string     `json:"format"` // csv | csv2 | fixed-length | fixedlength2
	Delim     string     `json:"delim,omitempty"`
	CRLF      bool       `json:"crlf,omitempty"`
	ReplaceDQ bool       `json:"replace_dq,omitempty"`
	Cols      []TableCol `json:"cols"`
	Rows      int        `json:"rows"`                // rows per record; 0 = header/footer based record
	HeaderRe  string     `json:"header_re,omitempty"` // header/footer based: record starts at a line matching it
	FooterRe  string     `json:"footer_re,omitempty"` // ... and ends at the first line (from the same line on) matching it; "" = single line
	// Skip are junk lines in front of everything else. csv: physical lines before header_row_index /
	// data_row_index; csv2 / fixedlength2: consumed by a leading non-target record of that many rows;
	// fixed-length (header/footer layout only): lines "G..." of a leading not_target envelope.
	Skip        []string `json:"skip,omitempty"`
	HasHeader   bool     `json:"has_header,omitempty"`   // csv: header_row_index declared; csv2: header record with min=max=1
	HeaderCells []string `json:"header_cells,omitempty"` // the header row actually present in the input
	HeaderQuote bool     `json:"header_quote,omitempty"` // header cells written quoted
	Gap         []string `json:"gap,omitempty"`          // csv: junk lines between header row and data_row_index
	// Probe (csv2 / fixedlength2) declares, in front of the target record, a non-target header/footer record whose
	// header matches any line and whose footer (^NEVER) matches none: the reader buffers every line looking for the
	// footer, gives up at the end of the input (pinned by the repo's own reader tests: "header matches, footer line
	// read io.EOF" -> no match, lines remain) and the target record then consumes the buffered lines one record at a
	// time. The model ignores the declaration: no such record can occur.
	Probe bool `json:"probe,omitempty"`
	// GlobalShadow (old fixed-length with Skip lines): the non-target GLOBAL envelope that consumes the junk lines declares
	// its column under the NAME of the record's first column, with its own line_pattern (column names are unique per
	// envelope only).
	GlobalShadow bool        `json:"global_shadow,omitempty"`
	LeadBlank    int         `json:"lead_blank,omitempty"` // blank lines at the very start
	Lines        []TableLine `json:"lines"`
	NoFinalEOL   bool        `json:"no_final_eol,omitempty"`
}

// IsCSV says whether the table is for one of the two delimited readers.
func (t Table) IsCSV() bool { return t.Format == "csv" || t.Format == "csv2" }

func (t Table) eol() string {
	if t.CRLF {
		return "\r\n"
	}
	return "\n"
}

// ---------------------------------------------------------------------------------------------
// schema

// Schema renders the pass-through schema: one `field` per declared column, no_trim, keep_empty_or_null.
func (t Table) Schema() string {
	fields := obj{}
	for _, c := range t.Cols {
		fields[c.Name] = obj{"xpath": c.Name, "no_trim": true, "keep_empty_or_null": true}
	}
	doc := obj{
		"parser_settings":        obj{"version": "omni.2.1", "file_format_type": t.Format},
		"file_declaration":       t.tableFileDecl(),
		"transform_declarations": obj{"FINAL_OUTPUT": obj{"object": fields}},
	}
	b, err := json.Marshal(doc)
	if err != nil {
		panic(err)
	}
	return string(b)
}

func (t Table) tableFileDecl() obj {
	switch t.Format {
	case "csv":
		cols := []interface{}{}
		for _, c := range t.Cols {
			cd := obj{"name": c.label()}
			if c.Label != "" {
				cd["alias"] = c.Name
			}
			cols = append(cols, cd)
		}
		fd := obj{"delimiter": t.Delim, "columns": cols, "data_row_index": len(t.Skip) + 1}
		if t.HasHeader {
			fd["header_row_index"] = len(t.Skip) + 1
			fd["data_row_index"] = len(t.Skip) + 2 + len(t.Gap)
		}
		if t.ReplaceDQ {
			fd["replace_double_quotes"] = true
		}
		return fd
	case "csv2":
		cols := []interface{}{}
		for _, c := range t.Cols {
			cd := obj{"name": c.Name}
			if c.Index > 0 {
				cd["index"] = c.Index
			}
			if c.LineIndex > 0 {
				cd["line_index"] = c.LineIndex
			}
			if c.LinePattern != "" {
				cd["line_pattern"] = c.LinePattern
			}
			cols = append(cols, cd)
		}
		rec := obj{"name": "REC", "is_target": true, "columns": cols}
		t.recordShape(rec)
		recs := []interface{}{}
		if len(t.Skip) > 0 {
			recs = append(recs, obj{"name": "SKIP", "rows": len(t.Skip), "min": 1, "max": 1})
		}
		if t.HasHeader {
			recs = append(recs, obj{"name": "HDR", "min": 1, "max": 1, "header": t.csv2HeaderRegexp()})
		}
		if t.Probe {
			recs = append(recs, obj{"name": "PROBE", "header": ".", "footer": "^NEVER"})
		}
		recs = append(recs, rec)
		fd := obj{"delimiter": t.Delim, "records": recs}
		if t.ReplaceDQ {
			fd["replace_double_quotes"] = true
		}
		return fd
	case "fixed-length":
		cols := []interface{}{}
		for _, c := range t.Cols {
			cd := obj{"name": c.Name, "start_pos": c.Start, "length": c.Length}
			if c.LinePattern != "" {
				cd["line_pattern"] = c.LinePattern
			}
			cols = append(cols, cd)
		}
		if t.Rows > 0 {
			env := obj{"columns": cols}
			if t.Rows != 1 {
				env["by_rows"] = t.Rows
			}
			return obj{"envelopes": []interface{}{env}}
		}
		envs := []interface{}{}
		if len(t.Skip) > 0 {
			gcol := obj{"name": "g", "start_pos": 1, "length": 3}
			if t.GlobalShadow && len(t.Cols) > 0 {
				gcol = obj{"name": t.Cols[0].Name, "start_pos": 1, "length": 3, "line_pattern": "^G"}
			}
			envs = append(envs, obj{"name": "GLOBAL", "by_header_footer": obj{"header": "^G", "footer": "^G"}, "not_target": true,
				"columns": []interface{}{gcol}})
		}
		envs = append(envs, obj{"name": "REC", "by_header_footer": obj{"header": t.HeaderRe, "footer": t.FooterRe}, "columns": cols})
		return obj{"envelopes": envs}
	case "fixedlength2":
		cols := []interface{}{}
		for _, c := range t.Cols {
			cd := obj{"name": c.Name, "start_pos": c.Start, "length": c.Length}
			if c.LineIndex > 0 {
				cd["line_index"] = c.LineIndex
			}
			if c.LinePattern != "" {
				cd["line_pattern"] = c.LinePattern
			}
			cols = append(cols, cd)
		}
		env := obj{"name": "REC", "is_target": true, "columns": cols}
		t.recordShape(env)
		envs := []interface{}{}
		if len(t.Skip) > 0 {
			envs = append(envs, obj{"name": "SKIP", "rows": len(t.Skip), "min": 1, "max": 1})
		}
		if t.Probe {
			envs = append(envs, obj{"name": "PROBE", "header": ".", "footer": "^NEVER"})
		}
		envs = append(envs, env)
		return obj{"envelopes": envs}
	}
	panic("unknown table format " + t.Format)
}

func (t Table) recordShape(rec obj) {
	if t.Rows > 0 {
		if t.Rows != 1 {
			rec["rows"] = t.Rows
		}
		return
	}
	rec["header"] = t.HeaderRe
	if t.FooterRe != "" {
		rec["footer"] = t.FooterRe
	}
}

// csv2HeaderRegexp is the doc's recipe for header verification: "^<COL 1>|<COL 2>|...|<COL N>$".
func (t Table) csv2HeaderRegexp() string {
	labels := make([]string, len(t.Cols))
	for i, c := range t.Cols {
		labels[i] = c.label()
	}
	return "^" + regexp.QuoteMeta(strings.Join(labels, t.Delim)) + "$"
}

// ---------------------------------------------------------------------------------------------
// rendering

func (t Table) csvCell(v string, force bool) string {
	if t.ReplaceDQ {
		return v // such inputs cannot use quoting at all; the generator keeps their values free of delimiter and line feed
	}
	if force || strings.ContainsAny(v, "\"\r\n") || strings.Contains(v, t.Delim) {
		return `"` + strings.ReplaceAll(v, `"`, `""`) + `"`
	}
	return v
}

func (t Table) csvRow(vals []string, forced map[int]bool) string {
	if len(vals) == 1 && vals[0] == "" {
		return `""` // a lone empty field must be written quoted or the row would be a blank line
	}
	var b strings.Builder
	for i, v := range vals {
		if i > 0 {
			b.WriteString(t.Delim)
		}
		b.WriteString(t.csvCell(v, forced[i]))
	}
	return b.String()
}

// LineText is the text of data row i as the model sees it: the fields (csv) or the line (fixed).
func (t Table) LineText(i int) []string {
	l := t.Lines[i]
	out := make([]string, len(l.Fields))
	for k, f := range l.Fields {
		out[k] = f.String()
	}
	return out
}

// Render produces the input bytes.
func (t Table) Render() []byte {
	var b bytes.Buffer
	eol := t.eol()
	for i := 0; i < t.LeadBlank; i++ {
		b.WriteString(eol)
	}
	for _, s := range t.Skip {
		b.WriteString(s + eol)
	}
	if t.HasHeader {
		forced := map[int]bool{}
		if t.HeaderQuote {
			for i := range t.HeaderCells {
				forced[i] = true
			}
		}
		b.WriteString(t.csvRow(t.HeaderCells, forced) + eol)
	}
	for _, s := range t.Gap {
		b.WriteString(s + eol)
	}
	for i, l := range t.Lines {
		vals := t.LineText(i)
		if t.IsCSV() {
			forced := map[int]bool{}
			for _, q := range l.Quote {
				forced[q] = true
			}
			b.WriteString(t.csvRow(vals, forced))
		} else {
			b.WriteString(vals[0])
		}
		last := i == len(t.Lines)-1
		if !last || !t.NoFinalEOL {
			b.WriteString(eol)
			for k := 0; k < l.Blank; k++ {
				b.WriteString(eol)
			}
		}
	}
	return b.Bytes()
}

// ---------------------------------------------------------------------------------------------
// model

// TableExpect is what the documented semantics say the pass-through schema delivers.
type TableExpect struct {
	HeaderRejected bool                 // declared header does not match: first Read fatal, no record ever
	Recs           []map[string]*string // per record: column name -> text (nil: the column has no source line / field)
	RecLines       [][]int              // per record: the data rows it is made of
}

func (t Table) raw(i int) string {
	vals := t.LineText(i)
	if t.IsCSV() {
		return strings.Join(vals, t.Delim) // doc csv2: the regexp sees the row re-joined with the delimiter
	}
	return vals[0]
}

// headerMatches implements the two documented header verifications.
func (t Table) headerMatches() (bool, error) {
	switch t.Format {
	case "csv":
		// doc: fewer header cells than declared -> fail; more -> excess ignored; any mismatch -> fail. The reader
		// trims cells and names before comparing; the generator only produces headers that are either equal after
		// trimming or differ in a non-blank character, so the verdict does not depend on that detail.
		if len(t.HeaderCells) < len(t.Cols) {
			return false, nil
		}
		for i, c := range t.Cols {
			if strings.TrimSpace(t.HeaderCells[i]) != strings.TrimSpace(c.label()) {
				return false, nil
			}
		}
		return true, nil
	case "csv2":
		re, err := regexp.Compile(t.csv2HeaderRegexp())
		if err != nil {
			return false, err
		}
		return re.MatchString(strings.Join(t.HeaderCells, t.Delim)), nil
	}
	return false, fmt.Errorf("format %s has no header verification", t.Format)
}

// Expect evaluates the model. An error means the table is not well-formed for its own layout
// (a generator bug), never a verdict about the reader.
func (t Table) Expect() (TableExpect, error) {
	var e TableExpect
	if t.HasHeader {
		ok, err := t.headerMatches()
		if err != nil {
			return e, err
		}
		if !ok {
			e.HeaderRejected = true
			return e, nil
		}
	}
	n := len(t.Lines)
	if t.Probe {
		for i := 0; i < n; i++ {
			if strings.HasPrefix(t.raw(i), "NEVER") {
				return e, fmt.Errorf("data row %d matches the probe record's footer", i)
			}
		}
	}
	// group data rows into records
	if t.Rows > 0 {
		if n%t.Rows != 0 {
			return e, fmt.Errorf("%d data rows are not a multiple of rows=%d", n, t.Rows)
		}
		for i := 0; i < n; i += t.Rows {
			var g []int
			for k := 0; k < t.Rows; k++ {
				g = append(g, i+k)
			}
			e.RecLines = append(e.RecLines, g)
		}
	} else {
		hre, err := regexp.Compile(t.HeaderRe)
		if err != nil {
			return e, err
		}
		var fre *regexp.Regexp
		if t.FooterRe != "" {
			if fre, err = regexp.Compile(t.FooterRe); err != nil {
				return e, err
			}
		}
		for i := 0; i < n; {
			if !hre.MatchString(t.raw(i)) {
				return e, fmt.Errorf("data row %d does not start a record", i)
			}
			j := i
			for fre != nil && !fre.MatchString(t.raw(j)) {
				j++
				if j >= n {
					return e, fmt.Errorf("record starting at data row %d has no footer", i)
				}
			}
			var g []int
			for k := i; k <= j; k++ {
				g = append(g, k)
			}
			e.RecLines = append(e.RecLines, g)
			i = j + 1
		}
	}
	// csv2 default indexes (doc: omitted -> previous column's index + 1, the first -> 1)
	idx := make([]int, len(t.Cols))
	for i, c := range t.Cols {
		switch {
		case t.Format == "csv":
			idx[i] = i + 1
		case c.Index > 0:
			idx[i] = c.Index
		case i == 0:
			idx[i] = 1
		default:
			idx[i] = idx[i-1] + 1
		}
	}
	pats := make([]*regexp.Regexp, len(t.Cols))
	for i, c := range t.Cols {
		if c.LinePattern != "" {
			re, err := regexp.Compile(c.LinePattern)
			if err != nil {
				return e, err
			}
			pats[i] = re
		}
	}
	for _, g := range e.RecLines {
		rec := map[string]*string{}
		for ci, c := range t.Cols {
			src := -1
			switch {
			case c.LineIndex > 0:
				if c.LineIndex <= len(g) {
					src = g[c.LineIndex-1]
				}
			case pats[ci] != nil:
				for _, li := range g {
					if pats[ci].MatchString(t.raw(li)) {
						src = li
						break
					}
				}
			default:
				src = g[0]
			}
			if src < 0 {
				rec[c.Name] = nil
				continue
			}
			vals := t.LineText(src)
			var v *string
			if t.IsCSV() {
				if idx[ci]-1 < len(vals) {
					s := vals[idx[ci]-1]
					if t.ReplaceDQ {
						s = strings.ReplaceAll(s, `"`, `'`)
					}
					v = &s
				}
			} else {
				rs := []rune(vals[0])
				from := c.Start - 1
				if from < len(rs) {
					to := len(rs)
					if c.Length < len(rs)-from { // (not from+Length: lengths up to MaxInt64 mean "the rest of the line")
						to = from + c.Length
					}
					s := string(rs[from:to])
					v = &s
				}
			}
			rec[c.Name] = v
		}
		e.Recs = append(e.Recs, rec)
	}
	return e, nil
}

// ---------------------------------------------------------------------------------------------
// generator

var tableSizeWindows = [][2]int{{4090, 4100}, {4090, 4100}, {4090, 4100}, {4090, 4100}, {4090, 4100},
	{8185, 8200}, {8185, 8200}, {8185, 8200}, {65530, 65540}, {65530, 65540}}

// delimiters encoding/csv accepts (everything but '"', CR, LF, NUL, U+FFFD and invalid runes); the pool mixes the
// usual ones with a blank, regexp meta characters, a letter that also occurs in values, and multi-byte runes.
var tableDelims = []string{",", ",", "|", "\t", ";", " ", "^", "*", ".", "\\", "a", "'", "é", "日", "𝄞", " "}

var tableBase = []rune("ab01 xyZ_-")
var tableWide = []rune("é€日𝄞ß ")

var tableFillsASCII = []string{"0123456789", "abcdefghijklmnopqrstuvwxyz", "x", "ab "}
var tableFillsWide = []string{"aé", "日本語", "é", "𝄞x", "0123456789é€", "€"}

type tableDraw struct {
	t     *rapid.T
	tb    *Table
	alpha []rune
	wide  bool
}

func (d *tableDraw) short(label string, max int) string {
	n := rapid.IntRange(0, max).Draw(d.t, label+"len")
	rs := make([]rune, n)
	for i := range rs {
		rs[i] = d.alpha[rapid.IntRange(0, len(d.alpha)-1).Draw(d.t, label)]
	}
	return string(rs)
}

// long draws a string whose byte (or rune) length lies in one of the buffer-crossing windows.
func (d *tableDraw) long(label string, head string, exact bool) TStr {
	w := tableSizeWindows[rapid.IntRange(0, len(tableSizeWindows)-1).Draw(d.t, label+"win")]
	target := rapid.IntRange(w[0], w[1]).Draw(d.t, label+"size")
	s := TStr{Head: head}
	if !exact {
		s.Tail = d.short(label+"tail", 4)
	}
	fills := tableFillsASCII
	if d.wide && rapid.Bool().Draw(d.t, label+"widefill") {
		fills = tableFillsWide
	}
	s.Fill = fills[rapid.IntRange(0, len(fills)-1).Draw(d.t, label+"fill")]
	if d.tb.ReplaceDQ {
		// such values cannot be quoted, so they must not contain the delimiter
		s.Fill = strings.ReplaceAll(s.Fill, d.tb.Delim, "")
		if s.Fill == "" {
			s.Fill = "x"
		}
	}
	rest := target - len(s.Head) - len(s.Tail)
	if rest < 0 {
		rest = 0
	}
	if rapid.Bool().Draw(d.t, label+"unitBytes") {
		// aim at the byte length: number of fill runes so that the bytes come as close to the target as possible from below
		p := []rune(s.Fill)
		n, used := 0, 0
		for {
			sz := utf8.RuneLen(p[n%len(p)])
			if used+sz > rest {
				break
			}
			used += sz
			n++
		}
		s.N = n
	} else {
		// aim at the rune count
		s.N = target - utf8.RuneCountInString(s.Head) - utf8.RuneCountInString(s.Tail)
		if s.N < 0 {
			s.N = 0
		}
	}
	return s
}

func tableContainsWide(s string) bool {
	for _, r := range s {
		if r >= utf8.RuneSelf {
			return true
		}
	}
	return false
}

// DrawTable draws a C06 case.
func DrawTable(t *rapid.T) Table {
	tb := Table{}
	d := &tableDraw{t: t, tb: &tb}
	tb.Format = rapid.SampledFrom([]string{"fixedlength2", "fixed-length", "csv2", "csv", "fixedlength2", "fixed-length", "csv2",
		"fixedlength2", "fixed-length", "csv2", "csv"}).Draw(t, "format")
	tb.CRLF = rapid.Bool().Draw(t, "crlf")
	d.wide = rapid.IntRange(0, 9).Draw(t, "wide") < 6
	ncols := rapid.SampledFrom([]int{1, 1, 2, 2, 3, 3, 4, 5, 6, 8}).Draw(t, "ncols")
	csvLike := tb.IsCSV()

	// ---- record layout
	tb.Rows = 1
	if tb.Format != "csv" {
		switch k := rapid.IntRange(0, 9).Draw(t, "layout"); {
		case k < 3:
			tb.Rows = 1
		case k < 5:
			tb.Rows = 2
		case k < 6:
			tb.Rows = 3
		default:
			tb.Rows = 0
			tb.HeaderRe = "^H"
			tb.FooterRe = "^(T|HT)"
			if tb.Format != "fixed-length" && rapid.IntRange(0, 3).Draw(t, "nofooter") == 0 {
				tb.FooterRe = "" // header alone matches a single line
			}
		}
	}
	tagged := tb.Rows != 1 || (tb.Format != "csv" && rapid.IntRange(0, 3).Draw(t, "tagged1") == 0)

	// ---- alphabet
	if csvLike {
		tb.Delim = rapid.SampledFrom(tableDelims).Draw(t, "delim")
		if !d.wide && tableContainsWide(tb.Delim) {
			tb.Delim = ","
		}
		tb.ReplaceDQ = rapid.IntRange(0, 7).Draw(t, "replaceDQ") == 0
		if tb.ReplaceDQ && tb.Delim == "'" {
			tb.Delim = "," // every '"' of the input becomes '\'': with that delimiter a quote in a value would split the field
		}
	}
	d.alpha = append([]rune{}, tableBase...)
	if csvLike {
		sp := []rune{'"', '"', ',', '\''}
		if !tb.ReplaceDQ {
			sp = append(sp, []rune(tb.Delim)...)
			sp = append(sp, []rune(tb.Delim)...)
			sp = append(sp, '\n', '\n')
		}
		d.alpha = append(d.alpha, sp...)
	} else {
		d.alpha = append(d.alpha, '"', ',', '\t', '\'')
	}
	if d.wide {
		d.alpha = append(d.alpha, tableWide...)
		d.alpha = append(d.alpha, ' ', '\f')
	}
	if tb.ReplaceDQ {
		// values must not need quoting: drop delimiter runes from the alphabet
		keep := d.alpha[:0]
		for _, r := range d.alpha {
			if !strings.ContainsRune(tb.Delim, r) {
				keep = append(keep, r)
			}
		}
		d.alpha = keep
		if len(d.alpha) == 0 {
			d.alpha = []rune{'q'}
		}
	}

	// ---- sizes
	longMode := rapid.IntRange(0, 9).Draw(t, "longMode") < 6
	var nrec int
	if longMode {
		nrec = rapid.SampledFrom([]int{1, 1, 2, 2, 3, 4}).Draw(t, "nrec")
	} else {
		nrec = rapid.SampledFrom([]int{0, 1, 1, 2, 2, 3, 3, 4, 5, 6, 8, 10}).Draw(t, "nrec")
	}

	// ---- columns
	// (anchored classes, and plain literals - unanchored, or anchored at both ends: a literal is matched anywhere in the line)
	patPool := []string{"^A", "^B", "^C", "^[AB]", "^[^A]", "B", "x", "1", "^A$", "^B.$", "a"}
	if tb.Rows == 0 {
		patPool = []string{"^A", "^B", "^H", "^T", "^(T|HT)", "^[AB]", "T", "A", "x", "1", "^T$", "^H.$"}
	}
	for i := 0; i < ncols; i++ {
		c := TableCol{Name: fmt.Sprintf("c%d", i)}
		if tagged {
			switch k := rapid.IntRange(0, 9).Draw(t, fmt.Sprintf("c%dsel", i)); {
			case k < 4 && tb.Format != "fixed-length":
				max := tb.Rows + 1
				if tb.Rows == 0 {
					max = 4
				}
				c.LineIndex = rapid.IntRange(1, max).Draw(t, fmt.Sprintf("c%dli", i))
			case k < 8:
				c.LinePattern = rapid.SampledFrom(patPool).Draw(t, fmt.Sprintf("c%dlp", i))
			}
		}
		switch tb.Format {
		case "csv":
			switch rapid.IntRange(0, 3).Draw(t, fmt.Sprintf("c%dlabel", i)) {
			case 0:
				c.Label = "col " + c.Name
			case 1:
				if d.wide {
					c.Label = "Ünï " + c.Name
				}
			}
		case "csv2":
			if rapid.Bool().Draw(t, fmt.Sprintf("c%dhasIdx", i)) {
				c.Index = rapid.IntRange(1, ncols+2).Draw(t, fmt.Sprintf("c%didx", i))
			}
		default:
			near := []int{4090, 4096, 4097, 8190, 8192, 8193, 65535, 65536, 65537}
			switch k := rapid.IntRange(0, 9).Draw(t, fmt.Sprintf("c%dstartKind", i)); {
			case k < 6 || !longMode:
				c.Start = rapid.IntRange(1, 14).Draw(t, fmt.Sprintf("c%dstart", i))
			case k < 9:
				c.Start = rapid.SampledFrom(near).Draw(t, fmt.Sprintf("c%dstartNear", i)) + rapid.IntRange(-6, 6).Draw(t, fmt.Sprintf("c%dstartOff", i))
			default:
				c.Start = rapid.SampledFrom([]int{2048, 2049, 4000, 70000}).Draw(t, fmt.Sprintf("c%dstartFar", i))
			}
			switch k := rapid.IntRange(0, 9).Draw(t, fmt.Sprintf("c%dlenKind", i)); {
			case k < 6:
				c.Length = rapid.IntRange(1, 10).Draw(t, fmt.Sprintf("c%dlength", i))
			case k < 8:
				c.Length = rapid.SampledFrom([]int{4095, 4096, 4097, 8192, 70000, 9223372036854775807, 9223372036854775806, 1 << 62}).Draw(t, fmt.Sprintf("c%dlengthBig", i))
			default:
				c.Length = rapid.IntRange(11, 40).Draw(t, fmt.Sprintf("c%dlengthMid", i))
			}
		}
		tb.Cols = append(tb.Cols, c)
	}

	// ---- data rows
	mkLine := func(label, tag string) TableLine {
		l := TableLine{}
		if csvLike {
			nf := rapid.IntRange(1, ncols+2).Draw(t, label+"nf")
			for k := 0; k < nf; k++ {
				v := d.short(fmt.Sprintf("%sf%d", label, k), 6)
				if k == 0 {
					v = tag + v
				}
				l.Fields = append(l.Fields, TStr{Head: v})
				if !tb.ReplaceDQ && rapid.IntRange(0, 4).Draw(t, fmt.Sprintf("%sq%d", label, k)) == 0 {
					l.Quote = append(l.Quote, k)
				}
			}
			if tb.ReplaceDQ && nf == 1 && l.Fields[0].Head == "" {
				l.Fields[0].Head = "-" // a lone empty field cannot be written without quotes
			}
		} else {
			v := tag + d.short(label+"txt", 20)
			if v == "" {
				v = " " // fixed-length data lines are non-empty (a blank-only line is data, an empty one is not)
			}
			l.Fields = []TStr{{Head: v}}
		}
		if rapid.IntRange(0, 5).Draw(t, label+"blank") == 0 {
			l.Blank = rapid.IntRange(1, 2).Draw(t, label+"nblank")
		}
		return l
	}
	type pos struct{ line, rec, at int }
	var where []pos
	for r := 0; r < nrec; r++ {
		var tags []string
		switch {
		case tb.Rows == 0 && tb.FooterRe == "":
			tags = []string{"H"}
		case tb.Rows == 0:
			if rapid.IntRange(0, 4).Draw(t, fmt.Sprintf("r%done", r)) == 0 {
				tags = []string{"HT"}
			} else {
				tags = []string{"H"}
				nm := rapid.IntRange(0, 2).Draw(t, fmt.Sprintf("r%dmid", r))
				for k := 0; k < nm; k++ {
					tags = append(tags, rapid.SampledFrom([]string{"A", "B", "B"}).Draw(t, fmt.Sprintf("r%dmid%d", r, k)))
				}
				tags = append(tags, "T")
			}
		default:
			for k := 0; k < tb.Rows; k++ {
				tag := ""
				if tagged {
					tag = rapid.SampledFrom([]string{"A", "B", "C"}).Draw(t, fmt.Sprintf("r%dtag%d", r, k))
				}
				tags = append(tags, tag)
			}
		}
		for k, tag := range tags {
			where = append(where, pos{line: len(tb.Lines), rec: r, at: k})
			tb.Lines = append(tb.Lines, mkLine(fmt.Sprintf("r%dl%d", r, k), tag))
		}
	}

	// ---- long lines / fields
	if longMode && len(tb.Lines) > 0 {
		nLong := rapid.SampledFrom([]int{1, 1, 2, 3}).Draw(t, "nLong")
		for k := 0; k < nLong; k++ {
			var li int
			switch sel := rapid.IntRange(0, 9).Draw(t, fmt.Sprintf("long%dsel", k)); {
			case sel < 3:
				li = len(tb.Lines) - 1
			case sel < 7:
				// prefer a later line of a multi-line record (short first line, long later line)
				var cand []int
				for _, p := range where {
					if p.at > 0 {
						cand = append(cand, p.line)
					}
				}
				if len(cand) > 0 {
					li = cand[rapid.IntRange(0, len(cand)-1).Draw(t, fmt.Sprintf("long%dlater", k))]
				} else {
					li = rapid.IntRange(0, len(tb.Lines)-1).Draw(t, fmt.Sprintf("long%dany", k))
				}
			default:
				li = rapid.IntRange(0, len(tb.Lines)-1).Draw(t, fmt.Sprintf("long%dany", k))
			}
			l := &tb.Lines[li]
			label := fmt.Sprintf("long%d", k)
			if csvLike {
				fi := rapid.IntRange(0, len(l.Fields)-1).Draw(t, label+"field")
				l.Fields[fi] = d.long(label, l.Fields[fi].Head, false)
			} else {
				// fixed: the line itself; "exact" variants have no random tail so that the byte length hits the window value itself
				l.Fields[0] = d.long(label, l.Fields[0].Head, rapid.Bool().Draw(t, label+"exact"))
			}
		}
	}
	if (tb.Format == "csv2" || tb.Format == "fixedlength2") && rapid.IntRange(0, 3).Draw(t, "probe") == 0 {
		tb.Probe = true
	}
	if len(tb.Lines) > 0 {
		tb.NoFinalEOL = rapid.IntRange(0, 9).Draw(t, "noFinalEOL") < 4
	}

	// ---- junk lines, header
	junk := func(label, prefix string) string {
		n := rapid.IntRange(0, 8).Draw(t, label+"len")
		rs := []rune(prefix + "j")
		for i := 0; i < n; i++ {
			rs = append(rs, []rune("junk 12,;|x")[rapid.IntRange(0, 10).Draw(t, label)])
		}
		return string(rs)
	}
	nskip := 0
	if rapid.IntRange(0, 3).Draw(t, "hasSkip") == 0 && !(tb.Format == "fixed-length" && tb.Rows > 0) {
		nskip = rapid.IntRange(1, 3).Draw(t, "nskip")
	}
	for i := 0; i < nskip; i++ {
		prefix := ""
		if tb.Format == "fixed-length" {
			prefix = "G"
		}
		tb.Skip = append(tb.Skip, junk(fmt.Sprintf("skip%d", i), prefix))
	}
	if nskip > 0 && tb.Format == "fixed-length" {
		tb.GlobalShadow = rapid.Bool().Draw(t, "globalShadow")
	}
	if csvLike && rapid.IntRange(0, 9).Draw(t, "hasHeader") < 4 {
		tb.HasHeader = true
		for _, c := range tb.Cols {
			cell := c.label()
			if tb.Format == "csv" {
				switch rapid.IntRange(0, 3).Draw(t, "pad"+c.Name) {
				case 0:
					cell = " " + cell
				case 1:
					cell = cell + "  "
				}
			}
			tb.HeaderCells = append(tb.HeaderCells, cell)
		}
		if tb.Format == "csv" && rapid.IntRange(0, 4).Draw(t, "extraHeaderCell") == 0 {
			tb.HeaderCells = append(tb.HeaderCells, "extra")
		}
		if rapid.IntRange(0, 9).Draw(t, "headerMismatch") < 3 {
			switch k := rapid.IntRange(0, 2).Draw(t, "mismatchKind"); {
			case k == 0 && ncols >= 2:
				tb.HeaderCells = tb.HeaderCells[:ncols-1] // fewer cells than declared columns
			case k == 1 && ncols >= 2:
				i := rapid.IntRange(0, ncols-2).Draw(t, "swapAt")
				tb.HeaderCells[i], tb.HeaderCells[i+1] = tb.HeaderCells[i+1], tb.HeaderCells[i]
			default:
				i := rapid.IntRange(0, ncols-1).Draw(t, "replaceAt")
				tb.HeaderCells[i] = rapid.SampledFrom([]string{"zz", "c9x", tb.Cols[i].label() + "x", "x" + tb.Cols[i].label()}).Draw(t, "replaceWith")
			}
		}
		tb.HeaderQuote = !tb.ReplaceDQ && rapid.IntRange(0, 3).Draw(t, "headerQuote") == 0
		if tb.Format == "csv" {
			ngap := rapid.SampledFrom([]int{0, 0, 0, 1, 2}).Draw(t, "ngap")
			for i := 0; i < ngap; i++ {
				tb.Gap = append(tb.Gap, junk(fmt.Sprintf("gap%d", i), ""))
			}
		}
	}
	if tb.ReplaceDQ {
		// junk and header lines must not need quoting either
		strip := func(s string) string {
			s = strings.ReplaceAll(s, tb.Delim, "")
			if s == "" {
				s = "j"
			}
			return s
		}
		for i := range tb.Skip {
			tb.Skip[i] = strip(tb.Skip[i])
		}
		for i := range tb.Gap {
			tb.Gap[i] = strip(tb.Gap[i])
		}
		for i := range tb.HeaderCells {
			if strings.Contains(tb.HeaderCells[i], tb.Delim) {
				// a label containing the delimiter cannot be written without quotes: fall back to plain names
				for k := range tb.Cols {
					tb.Cols[k].Label = ""
				}
				tb.HeaderCells = nil
				tb.HasHeader = false
				tb.Gap = nil
				break
			}
		}
	}
	// blank lines at the very start: the old csv reader's header_row_index / data_row_index are physical line numbers,
	// so only when neither points past line 1
	if !(tb.Format == "csv" && (tb.HasHeader || len(tb.Skip) > 0)) && rapid.IntRange(0, 5).Draw(t, "leadBlank") == 0 {
		tb.LeadBlank = rapid.IntRange(1, 2).Draw(t, "nLeadBlank")
	}
	return tb
}
