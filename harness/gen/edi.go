package gen

// EDI tokenizer generator for C07: delimiter configurations, logical segments (name, elements ->
// repetitions -> components), an own escaper / writer, CR/LF noise placed only where the documented
// rules remove it, and element declarations.

import (
	"fmt"
	"strings"
	"unicode/utf8"

	"pgregory.net/rapid"
)

// EDIConf is a delimiter configuration. All delimiters are built from pairwise disjoint rune sets,
// none contains the release character (domain exclusion of C07, by construction).
type EDIConf struct {
	Seg        string  `json:"seg"`
	Elem       string  `json:"elem"`
	Comp       *string `json:"comp,omitempty"`
	Rep        *string `json:"rep,omitempty"`
	Rel        *string `json:"rel,omitempty"`
	IgnoreCRLF bool    `json:"ignore_crlf,omitempty"`
}

// EDISeg is one logical segment. Elems[e][r][c] is the logical (unescaped) value of component c of
// repetition r of element e (element 1 is Elems[0]); every element has >= 1 repetition and every
// repetition >= 1 component. Without a repetition (component) delimiter there is exactly one.
type EDISeg struct {
	Name  string       `json:"name"`
	Elems [][][]string `json:"elems"`
	// StrayCR: only with "\n" as segment delimiter: a CR is written before the delimiter (dropped by
	// documentation).
	StrayCR bool `json:"stray_cr,omitempty"`
	// BlankBefore: number of CR/LF-only tokens written before the segment (only when the segment
	// delimiter itself consists of CR/LF, where such tokens are skipped by documentation).
	BlankBefore int `json:"blank_before,omitempty"`
	// GratEvery k > 0: every k-th rune that needs no escape is escaped anyway (the release character
	// escapes exactly the next rune, whatever it is). Only with a release character.
	GratEvery int `json:"grat_every,omitempty"`
}

// EDINoise inserts S (CR/LF only) at the rune boundary at or before byte offset Off (mod length) of
// the rendered input. Only generated with ignore_crlf, where every CR and LF is removed before
// tokenizing.
type EDINoise struct {
	Off int    `json:"off"`
	S   string `json:"s"`
}

// EDIDoc is a complete logical EDI input.
type EDIDoc struct {
	Conf     EDIConf  `json:"conf"`
	Segs     []EDISeg `json:"segs"`
	Trailing string   `json:"trailing,omitempty"` // CR/LF run after the final segment delimiter (ignored by documentation)
	// NoFinalDelim leaves the last segment without its segment delimiter (the input ends there): it is still a segment.
	NoFinalDelim bool       `json:"no_final_delim,omitempty"`
	Noise        []EDINoise `json:"noise,omitempty"`
}

// EDIElemDecl is an element declaration of a segment declaration.
type EDIElemDecl struct {
	Name           string  `json:"name"`
	Index          int     `json:"index"`
	Comp           *int    `json:"comp,omitempty"`
	Default        *string `json:"default,omitempty"`
	EmptyIfMissing bool    `json:"empty_if_missing,omitempty"`
}

// EDIRawElem is one expected RawSegElem.
type EDIRawElem struct {
	ElemIndex, CompIndex int
	Escaped              string // bytes as written
	Logical              string // the value the transform must see
}

// EDIRenderedSeg is what the writer produced for one segment.
type EDIRenderedSeg struct {
	Name  string
	Raw   string // segment text including stray CR and delimiter, without noise
	Elems []EDIRawElem
}

var (
	ediSpecialPool = []rune{'~', '*', ':', '^', '?', '|', '+', '\'', '!', '#', '&', '=', ';', '<', '>', '§', '€', 'é', '¦', '‡', '¶', '\\'}
	ediBaseAlpha   = []rune{'a', 'b', 'X', 'Y', ' ', '1', '0', 'ü', 'ñ', '日'}
)

func ediStrPtr(s string) *string { return &s }

// Specials returns every rune that belongs to a delimiter or is the release character.
func (c EDIConf) Specials() string {
	s := c.Seg + c.Elem
	if c.Comp != nil {
		s += *c.Comp
	}
	if c.Rep != nil {
		s += *c.Rep
	}
	if c.Rel != nil {
		s += *c.Rel
	}
	return s
}

// MultiRune reports whether some delimiter has more than one rune.
func (c EDIConf) MultiRune() bool {
	n := func(s *string) int {
		if s == nil {
			return 0
		}
		return utf8.RuneCountInString(*s)
	}
	return n(&c.Seg) > 1 || n(&c.Elem) > 1 || n(c.Comp) > 1 || n(c.Rep) > 1
}

// MultiByte reports whether some delimiter or the release character has a multi-byte rune.
func (c EDIConf) MultiByte() bool {
	for _, r := range c.Specials() {
		if r >= utf8.RuneSelf {
			return true
		}
	}
	return false
}

// DrawEDIConf draws a delimiter configuration.
func DrawEDIConf(t *rapid.T) EDIConf {
	perm := rapid.Permutation(ediSpecialPool).Draw(t, "specialPerm")
	idx := 0
	take := func(n int) string {
		s := string(perm[idx : idx+n])
		idx += n
		return s
	}
	c := EDIConf{}
	switch k := rapid.IntRange(0, 19).Draw(t, "segKind"); {
	case k < 7:
		c.Seg = take(1)
	case k < 11:
		c.Seg = take(rapid.IntRange(2, 3).Draw(t, "segLen"))
	case k < 14:
		c.Seg = "\n"
	case k < 16:
		c.Seg = "\r\n"
	case k < 18:
		c.Seg = take(1) + "\n"
	default:
		r := take(1)
		c.Seg = r + r // a delimiter that repeats one rune
	}
	if rapid.IntRange(0, 9).Draw(t, "elemKind") < 7 {
		c.Elem = take(1)
	} else {
		c.Elem = take(rapid.IntRange(2, 3).Draw(t, "elemLen"))
	}
	switch k := rapid.IntRange(0, 19).Draw(t, "compKind"); {
	case k < 7:
	case k < 16:
		c.Comp = ediStrPtr(take(1))
	default:
		c.Comp = ediStrPtr(take(2))
	}
	switch k := rapid.IntRange(0, 19).Draw(t, "repKind"); {
	case k < 10:
	case k < 18:
		c.Rep = ediStrPtr(take(1))
	default:
		c.Rep = ediStrPtr(take(2))
	}
	if rapid.IntRange(0, 9).Draw(t, "hasRel") < 8 {
		c.Rel = ediStrPtr(take(1))
	}
	if !strings.ContainsAny(c.Seg, "\r\n") {
		c.IgnoreCRLF = rapid.IntRange(0, 3).Draw(t, "ignoreCRLF") == 0
	}
	return c
}

// valueAlphabet returns the runes values are drawn from: the base alphabet, special runes that are
// not used by the configuration (plain data), CR/LF where they are data, and - only with a release
// character - the configuration's own special runes, weighted to dominate.
func (c EDIConf) valueAlphabet() []rune {
	sp := c.Specials()
	alpha := append([]rune{}, ediBaseAlpha...)
	unused := 0
	for _, r := range ediSpecialPool {
		if !strings.ContainsRune(sp, r) && unused < 3 {
			alpha = append(alpha, r)
			unused++
		}
	}
	if !c.IgnoreCRLF {
		// CR and LF are data unless one of the three documented rules removes them; with "\n" as
		// the delimiter a CR at the end of a segment would be the documented stray CR, so CR is kept
		// out of values altogether there.
		if !strings.ContainsRune(sp, '\n') {
			alpha = append(alpha, '\n')
		}
		if !strings.ContainsRune(sp, '\r') && c.Seg != "\n" {
			alpha = append(alpha, '\r')
		}
	}
	if c.Rel != nil {
		var own []rune
		for _, r := range sp {
			if (r == '\r' || r == '\n') && c.IgnoreCRLF {
				continue
			}
			own = append(own, r)
		}
		for len(own) > 0 && len(alpha) < 3*len(ediBaseAlpha) {
			alpha = append(alpha, own...)
		}
	}
	return alpha
}

// DrawEDIDoc draws the logical segments. sameName: all segments share one name.
func DrawEDIDoc(t *rapid.T, c EDIConf, sameName bool) EDIDoc {
	d := EDIDoc{Conf: c}
	alpha := c.valueAlphabet()
	names := []string{"ISA", "GS", "N1", "X", "LONGSEGNAME", "Ü1", "q"}
	first := rapid.SampledFrom(names).Draw(t, "segName0")
	nseg := rapid.IntRange(1, 4).Draw(t, "nseg")
	crlfDelim := strings.Trim(c.Seg, "\r\n") == ""
	for s := 0; s < nseg; s++ {
		seg := EDISeg{Name: first}
		if !sameName && s > 0 {
			seg.Name = rapid.SampledFrom(names).Draw(t, "segName")
		}
		size := rapid.IntRange(0, 19).Draw(t, "segSize")
		nel := rapid.IntRange(0, 5).Draw(t, "nel")
		maxLen := 6
		switch {
		case size >= 12 && size < 18: // 120-140 bytes and beyond: many elements
			nel = rapid.IntRange(20, 40).Draw(t, "nelMany")
		case size == 18: // one long value
			maxLen = 160
		}
		huge := -1
		if size == 19 && s == 0 {
			huge = 0 // one value beyond 4096 bytes (scanner buffer growth by several doublings)
			if nel == 0 {
				nel = 1
			}
		}
		for e := 0; e < nel; e++ {
			nrep := 1
			if c.Rep != nil {
				nrep = rapid.SampledFrom([]int{1, 1, 2, 3}).Draw(t, "nrep")
			}
			var reps [][]string
			for r := 0; r < nrep; r++ {
				ncomp := 1
				if c.Comp != nil {
					ncomp = rapid.SampledFrom([]int{1, 1, 2, 3}).Draw(t, "ncomp")
				}
				var comps []string
				for k := 0; k < ncomp; k++ {
					var v string
					switch {
					case e == huge && r == 0 && k == 0:
						unit := string(rapid.SliceOfN(rapid.SampledFrom(alpha), 1, 8).Draw(t, "hugeUnit"))
						v = strings.Repeat(unit, 4100/len(unit)+1)
					case maxLen > 6 && e == 0 && r == 0 && k == 0:
						v = string(rapid.SliceOfN(rapid.SampledFrom(alpha), 100, maxLen).Draw(t, "longVal"))
					default:
						v = string(rapid.SliceOfN(rapid.SampledFrom(alpha), 0, 6).Draw(t, "val"))
					}
					comps = append(comps, v)
				}
				reps = append(reps, comps)
			}
			seg.Elems = append(seg.Elems, reps)
		}
		if c.Seg == "\n" {
			seg.StrayCR = rapid.IntRange(0, 2).Draw(t, "strayCR") == 0
		}
		if crlfDelim && rapid.IntRange(0, 3).Draw(t, "blankBefore") == 0 {
			seg.BlankBefore = rapid.IntRange(1, 2).Draw(t, "nBlank")
		}
		if c.Rel != nil && rapid.IntRange(0, 5).Draw(t, "gratuitous") == 0 {
			seg.GratEvery = rapid.IntRange(1, 5).Draw(t, "gratEvery")
		}
		d.Segs = append(d.Segs, seg)
	}
	if rapid.IntRange(0, 3).Draw(t, "trailing") == 0 {
		d.Trailing = rapid.SampledFrom([]string{"\n", "\r\n", "\n\n", "\r"}).Draw(t, "trailingRun")
	} else if len(d.Segs) > 0 && !d.Segs[len(d.Segs)-1].StrayCR && rapid.IntRange(0, 3).Draw(t, "noFinalDelim") == 0 {
		d.NoFinalDelim = true
	}
	if c.IgnoreCRLF {
		n := rapid.IntRange(0, 6).Draw(t, "nNoise")
		for i := 0; i < n; i++ {
			d.Noise = append(d.Noise, EDINoise{
				Off: rapid.IntRange(0, 400).Draw(t, "noiseOff"),
				S:   rapid.SampledFrom([]string{"\n", "\r\n", "\r", "\n\n"}).Draw(t, "noiseS"),
			})
		}
	}
	return d
}

// DrawEDIElemDecls draws element declarations against a logical segment: mostly pieces that exist
// (an element index and a component index that some repetition has), otherwise arbitrary indexes in
// and out of range; defaults and empty_if_missing; and, when dup is set, a later declaration that
// reads the element an earlier one reads.
func DrawEDIElemDecls(t *rapid.T, label string, seg EDISeg, dup bool) []EDIElemDecl {
	var out []EDIElemDecl
	nel := len(seg.Elems)
	n := rapid.IntRange(0, 4).Draw(t, label+"nDecl")
	if nel == 0 && n > 1 {
		n = 1 // nothing to read: at most one declaration (out of range by necessity)
	}
	if dup && n < 2 {
		n = 2
	}
	used := map[[2]int]bool{}
	key := func(d EDIElemDecl) [2]int {
		if d.Comp == nil {
			return [2]int{d.Index, 1}
		}
		return [2]int{d.Index, *d.Comp}
	}
	for i := 0; i < n; i++ {
		d := EDIElemDecl{Name: fmt.Sprintf("e%d", i+1)}
		arbitrary, isDup := false, false
		switch {
		case dup && i > 0 && (i == n-1 || rapid.IntRange(0, 2).Draw(t, label+"dup") == 0):
			isDup = true
			prev := out[rapid.IntRange(0, i-1).Draw(t, label+"dupOf")]
			d.Index, d.Comp = prev.Index, prev.Comp
			if d.Comp != nil && *d.Comp == 1 && rapid.Bool().Draw(t, label+"dupImplicit") {
				d.Comp = nil // component_index defaults to 1: the same element
			}
		case nel > 0 && rapid.IntRange(0, 5).Draw(t, label+"existing") != 0:
			e := rapid.IntRange(0, nel-1).Draw(t, label+"elem")
			if nel > 8 && rapid.Bool().Draw(t, label+"nearFront") {
				e = e % 8
			}
			d.Index = e + 1
			ncomp := 0
			for _, rep := range seg.Elems[e] {
				if len(rep) > ncomp {
					ncomp = len(rep)
				}
			}
			k := rapid.IntRange(1, ncomp).Draw(t, label+"comp")
			if k > 1 || rapid.Bool().Draw(t, label+"explComp") {
				d.Comp = &k
			}
		default:
			arbitrary = true
			d.Index = rapid.IntRange(1, nel+2).Draw(t, label+"index")
			if k := rapid.IntRange(0, 4).Draw(t, label+"compIdx"); k > 0 {
				d.Comp = &k
			}
		}
		// two declarations reading one element only where asked for: otherwise move on to a free index
		for !isDup && used[key(d)] {
			d.Index++
		}
		used[key(d)] = true
		dfltKind := rapid.IntRange(0, 7).Draw(t, label+"dflt")
		if arbitrary && dfltKind > 3 && rapid.IntRange(0, 3).Draw(t, label+"dfltMore") != 0 {
			dfltKind -= 4
		}
		switch dfltKind {
		case 0:
			d.Default = ediStrPtr("")
		case 1:
			d.Default = ediStrPtr("dflt")
		case 2:
			d.EmptyIfMissing = true
		case 3:
			d.EmptyIfMissing = true
			d.Default = ediStrPtr("both")
		}
		out = append(out, d)
	}
	return out
}

// escape writes one logical value: the release character before every rune that belongs to a
// delimiter or is the release character (and before every GratEvery-th other rune).
func (c EDIConf) escape(v string, gratEvery int, counter *int) string {
	if c.Rel == nil {
		return v
	}
	sp := c.Specials()
	var sb strings.Builder
	for _, r := range v {
		switch {
		case strings.ContainsRune(sp, r):
			sb.WriteString(*c.Rel)
		case gratEvery > 0:
			*counter++
			if *counter%gratEvery == 0 {
				sb.WriteString(*c.Rel)
			}
		}
		sb.WriteRune(r)
	}
	return sb.String()
}

// Render writes the document and returns, per segment, what a tokenizer must report.
func (d EDIDoc) Render() ([]byte, []EDIRenderedSeg) {
	c := d.Conf
	var all strings.Builder
	var out []EDIRenderedSeg
	for si, s := range d.Segs {
		for i := 0; i < s.BlankBefore; i++ {
			if c.Seg == "\n" && i%2 == 1 {
				all.WriteString("\r")
			}
			all.WriteString(c.Seg)
		}
		rs := EDIRenderedSeg{Name: s.Name}
		var sb strings.Builder
		sb.WriteString(s.Name)
		rs.Elems = append(rs.Elems, EDIRawElem{ElemIndex: 0, CompIndex: 1, Escaped: s.Name, Logical: s.Name})
		counter := 0
		for e, reps := range s.Elems {
			sb.WriteString(c.Elem)
			for r, comps := range reps {
				if r > 0 {
					sb.WriteString(*c.Rep)
				}
				for k, v := range comps {
					if k > 0 {
						sb.WriteString(*c.Comp)
					}
					esc := c.escape(v, s.GratEvery, &counter)
					sb.WriteString(esc)
					rs.Elems = append(rs.Elems, EDIRawElem{ElemIndex: e + 1, CompIndex: k + 1, Escaped: esc, Logical: v})
				}
			}
		}
		if s.StrayCR {
			sb.WriteString("\r")
		}
		if !(d.NoFinalDelim && si == len(d.Segs)-1) {
			sb.WriteString(c.Seg)
		}
		rs.Raw = sb.String()
		all.WriteString(rs.Raw)
		out = append(out, rs)
	}
	all.WriteString(d.Trailing)
	b := []byte(all.String())
	for _, n := range d.Noise {
		off := n.Off % (len(b) + 1)
		for off > 0 && off < len(b) && !utf8.RuneStart(b[off]) {
			off--
		}
		nb := make([]byte, 0, len(b)+len(n.S))
		nb = append(nb, b[:off]...)
		nb = append(nb, n.S...)
		nb = append(nb, b[off:]...)
		b = nb
	}
	return b, out
}

// FileDecl returns the delimiter part of a file_declaration.
func (c EDIConf) FileDecl() map[string]interface{} {
	fd := map[string]interface{}{"segment_delimiter": c.Seg, "element_delimiter": c.Elem}
	if c.Comp != nil {
		fd["component_delimiter"] = *c.Comp
	}
	if c.Rep != nil {
		fd["repetition_delimiter"] = *c.Rep
	}
	if c.Rel != nil {
		fd["release_character"] = *c.Rel
	}
	if c.IgnoreCRLF {
		fd["ignore_crlf"] = true
	}
	return fd
}

// EDIElemDeclsJSON renders element declarations for a segment declaration.
func EDIElemDeclsJSON(ds []EDIElemDecl) []map[string]interface{} {
	out := []map[string]interface{}{}
	for _, d := range ds {
		o := map[string]interface{}{"name": d.Name, "index": d.Index}
		if d.Comp != nil {
			o["component_index"] = *d.Comp
		}
		if d.Default != nil {
			o["default"] = *d.Default
		}
		if d.EmptyIfMissing {
			o["empty_if_missing"] = true
		}
		out = append(out, o)
	}
	return out
}
