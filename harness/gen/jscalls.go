package gen

// JavaScript call histories for the isolation / value-mapping property (C20).
//
// Scripts come from a fixed terminating family: expressions over the call's own named arguments, probes
// of names that OTHER calls use as argument names, constants covering every result shape the property
// lists, and the error results. Never generated (excluded by the property or by the brief): assignment to
// globals (including top-level `var`), loops, Date, Math.random.

import (
	"fmt"
	"sort"
	"strconv"
	"strings"

	"pgregory.net/rapid"
)

// JSArgNames is the (deliberately tiny) pool of argument names: collisions between calls are the norm.
var JSArgNames = []string{"a", "b", "c", "d"}

// JSArg is one named argument. The value is kept as a literal so that -0, 2^53+1 and 1e21 survive the
// JSON round trip of a saved case: Kind s (string, in S), i (int64), f (float64), b (bool).
type JSArg struct {
	Name string `json:"name"`
	Kind string `json:"kind"`
	S    string `json:"s,omitempty"`
	Lit  string `json:"lit,omitempty"`
}

// Value is the Go value handed to the custom function (what the transform layer would pass: string,
// int64, float64, bool).
func (a JSArg) Value() interface{} {
	switch a.Kind {
	case "i":
		v, err := strconv.ParseInt(a.Lit, 10, 64)
		if err != nil {
			panic(err)
		}
		return v
	case "f":
		v, err := strconv.ParseFloat(a.Lit, 64)
		if err != nil {
			panic(err)
		}
		return v
	case "b":
		return a.Lit == "true"
	}
	return a.S
}

// JSNodeChild is a child element with one text node.
type JSNodeChild struct {
	Name string `json:"name"`
	Text string `json:"text"`
}

// JSNodeSpec describes a small element tree built through the idr API.
type JSNodeSpec struct {
	Name     string        `json:"name"`
	Children []JSNodeChild `json:"children,omitempty"`
}

// JSNodeOp is a mutation applied to a node between two calls.
type JSNodeOp struct {
	Kind  string `json:"kind"` // settext | addchild | dropchild
	Child int    `json:"child,omitempty"`
	Name  string `json:"name,omitempty"`
	Text  string `json:"text,omitempty"`
}

// JSCall is one call of JavaScript (Ctx=false) or JavaScriptWithContext (Ctx=true, Node = index into the
// thread's nodes, -1 = nil node).
type JSCall struct {
	Ctx    bool      `json:"ctx,omitempty"`
	Node   int       `json:"node"`
	Mutate *JSNodeOp `json:"mutate,omitempty"` // applied to the node before the call
	Script string    `json:"script"`
	Probes []string  `json:"probes,omitempty"` // global names the script inspects ("*" = all enumerable globals)
	Args   []JSArg   `json:"args,omitempty"`
	// BadName k > 0: the NAME of the k-th name/value pair is passed as a non-string (the number 7): the call must fail, and
	// the pairs in front of it must not reach any later call
	BadName int `json:"bad_name,omitempty"`
}

// JSThread is what one goroutine does.
type JSThread struct {
	Nodes []JSNodeSpec `json:"nodes,omitempty"`
	Calls []JSCall     `json:"calls"`
}

// JSField is a javascript / javascript_with_context field of a generated schema.
type JSField struct {
	Name  string `json:"name"`
	Ctx   bool   `json:"ctx,omitempty"`
	XPath string `json:"xpath,omitempty"` // "", ".", "..", "../..", "c0" (the record's first column; Wrap only)
	// Wrap: the call sits, without an xpath of its own, inside an object that carries the anchor xpath:
	// {"xpath": XPath, "object": {"v": <call>}} - the same call text can then be evaluated on several nodes of one record.
	Wrap   bool     `json:"wrap,omitempty"`
	Script string   `json:"script"`
	Probes []string `json:"probes,omitempty"`
	Args   []JSArg  `json:"args,omitempty"`
}

var jsStrings = []string{"x", "1", " pad ", "é日", `a"b\c`, "<&>", "0", "true", ""}
var jsInts = []string{"0", "1", "-1", "2", "3", "-3", "7", "2147483648", "9007199254740992", "9007199254740993", "-9007199254740993"}
var jsFloats = []string{"0.5", "-1.25", "1e21", "1e-7", "3", "-0", "123456789.125", "0.1"}

// DrawJSArgs draws 0..3 arguments with distinct names from the pool. noEmpty keeps strings non-empty
// (for values that travel through `const` declarations of a schema).
func DrawJSArgs(t *rapid.T, label string, noEmpty bool) []JSArg {
	n := rapid.IntRange(0, 3).Draw(t, label+"n")
	// (rarely an argument is called _node: with a node present the injected value still wins, without one it is an
	// ordinary argument)
	perm := rapid.Permutation(append([]string{}, JSArgNames...)).Draw(t, label+"names")
	if rapid.IntRange(0, 9).Draw(t, label+"nodeName") == 0 {
		perm[0] = "_node"
	}
	args := make([]JSArg, 0, n)
	for i := 0; i < n; i++ {
		a := JSArg{Name: perm[i]}
		switch rapid.IntRange(0, 3).Draw(t, fmt.Sprintf("%sk%d", label, i)) {
		case 0:
			a.Kind = "s"
			pool := jsStrings
			if noEmpty {
				pool = jsStrings[:len(jsStrings)-1]
			}
			a.S = rapid.SampledFrom(pool).Draw(t, fmt.Sprintf("%ss%d", label, i))
		case 1:
			a.Kind, a.Lit = "i", rapid.SampledFrom(jsInts).Draw(t, fmt.Sprintf("%si%d", label, i))
		case 2:
			a.Kind, a.Lit = "f", rapid.SampledFrom(jsFloats).Draw(t, fmt.Sprintf("%sf%d", label, i))
		default:
			a.Kind, a.Lit = "b", fmt.Sprint(rapid.Bool().Draw(t, fmt.Sprintf("%sb%d", label, i)))
		}
		args = append(args, a)
	}
	sort.Slice(args, func(i, j int) bool { return args[i].Name < args[j].Name })
	return args
}

var jsConstScripts = []string{
	"1.5", "-0", "0", "42", "-7", "9007199254740992", "9007199254740993", "2147483648", "1e21", "0.1+0.2", "1/3", "5e-324",
	"'str'", "''", "'é日 \"q\" <&>'", "true", "false", "[]", "({})", "[1,'2',[true,{k:'v'}]]", "[1.5,-2,1e21]",
	"({n:1.5,s:'x',b:true,a:[1,'2'],o:{d:{e:[]}}})", "'a'+1", "[1,2,3].length", "'abc'.toUpperCase()", "({'k k':1,'2':'two'})",
}

var jsErrorScripts = []string{
	"0/0", "1/0", "-1/0", "null", "undefined", "void 0", "throw new Error('x')", "(function(){ throw 'boom' })()",
	"nosuchname", "1 +", "Math.sqrt(-1)", "parseInt('zz')", "({}).x", "[][0]", "Number.POSITIVE_INFINITY", "null.x",
}

// DrawJSScript draws a script. own are the argument names of the call itself; ctx says whether `_node`
// will be defined. The second result lists the global names the script looks at.
func DrawJSScript(t *rapid.T, label string, own []string, ctx bool) (string, []string) {
	pick := func(l string) string { return rapid.SampledFrom(JSArgNames).Draw(t, label+l) }
	ownOr := func(l string) string {
		if len(own) == 0 {
			return pick(l)
		}
		return own[rapid.IntRange(0, len(own)-1).Draw(t, label+l)]
	}
	kind := rapid.IntRange(0, 19).Draw(t, label+"kind")
	if ctx && kind >= 14 {
		kind = 20 + rapid.IntRange(0, 5).Draw(t, label+"ctxkind")
	}
	switch kind {
	case 0, 1, 2:
		x := pick("x")
		return fmt.Sprintf("typeof %s === 'undefined' ? 'clean' : 'leak:' + %s", x, x), []string{x}
	case 3:
		return "[typeof a, typeof b, typeof c, typeof d, typeof _node]", []string{"a", "b", "c", "d", "_node"}
	case 4, 5:
		return "Object.keys(this).sort().join(',')", []string{"*"}
	case 6:
		x, y := pick("x"), pick("y")
		return fmt.Sprintf("({k: typeof %s, n: 1.5, s: 'x', b: true, a: [1, '2', [true]], o: {d: typeof %s}})", x, y), []string{x, y}
	case 7:
		x, y := pick("x"), pick("y")
		return fmt.Sprintf("(typeof %s === 'undefined' ? 0 : 1) + (typeof %s === 'undefined' ? 0 : 10)", x, y), []string{x, y}
	case 8:
		// a bare reference: ReferenceError when the name is not defined, its value otherwise
		x := pick("x")
		return x, []string{x}
	case 9, 10, 11:
		x, y := ownOr("x"), ownOr("y")
		z := pick("z")
		forms := []string{
			"%[1]s + %[2]s", "%[1]s * 2", "%[1]s / %[2]s", "%[1]s - 1", "[%[1]s, %[2]s]", "({v: %[1]s, w: [%[2]s]})", "String(%[1]s).length",
			"%[1]s + ''", "typeof %[1]s", "%[1]s === %[2]s", "%[1]s.toUpperCase()", "JSON.stringify([%[1]s])",
			"(function(){ var t = %[1]s; return [t, typeof %[3]s]; })()", "-%[1]s", "%[1]s ? 'y' : 'n'", "[%[1]s].concat([%[2]s, typeof %[3]s])",
		}
		f := forms[rapid.IntRange(0, len(forms)-1).Draw(t, label+"form")]
		s := fmt.Sprintf(f, x, y, z)
		if i := strings.Index(s, "%!(EXTRA"); i >= 0 {
			s = s[:i]
		}
		return s, []string{x, y, z}
	case 12:
		return rapid.SampledFrom(jsErrorScripts).Draw(t, label+"err"), nil
	case 13, 14, 15:
		return rapid.SampledFrom(jsConstScripts).Draw(t, label+"const"), nil
	case 16:
		return "typeof _node === 'undefined' ? 'no node' : 'node:' + _node.length", []string{"_node"}
	case 17:
		x := pick("x")
		return fmt.Sprintf("(function(){ try { return 'leak:' + %s; } catch (e) { return 'clean'; } })()", x), []string{x}
	case 18, 19:
		return "Object.keys(this).sort().join(',')", []string{"*"}
	// ---- context scripts
	case 20:
		return "_node", []string{"_node"}
	case 21:
		return "JSON.parse(_node)", []string{"_node"}
	case 22:
		return "_node.length", []string{"_node"}
	case 23:
		x := pick("x")
		return fmt.Sprintf("[JSON.parse(_node), typeof %s]", x), []string{"_node", x}
	case 24:
		return "(function(){ var n = JSON.parse(_node); return Object.keys(n).sort(); })()", []string{"_node"}
	default:
		return "Object.keys(this).sort().join(',') + '|' + _node", []string{"*", "_node"}
	}
}

func jsNamesOf(args []JSArg) []string {
	out := make([]string, len(args))
	for i, a := range args {
		out[i] = a.Name
	}
	return out
}

var jsTexts = []string{"1", "x", "é", "", "a b", `q"`, "2", "long text 0123456789"}

// DrawJSThread draws the calls of one goroutine.
func DrawJSThread(t *rapid.T, label string, maxCalls int) JSThread {
	th := JSThread{}
	nn := rapid.IntRange(0, 3).Draw(t, label+"nnodes")
	for i := 0; i < nn; i++ {
		ns := JSNodeSpec{Name: rapid.SampledFrom([]string{"r", "rec", "n"}).Draw(t, fmt.Sprintf("%sn%dname", label, i))}
		nc := rapid.IntRange(0, 3).Draw(t, fmt.Sprintf("%sn%dnc", label, i))
		for k := 0; k < nc; k++ {
			ns.Children = append(ns.Children, JSNodeChild{
				Name: rapid.SampledFrom([]string{"a", "b", "k"}).Draw(t, fmt.Sprintf("%sn%dc%dname", label, i, k)),
				Text: rapid.SampledFrom(jsTexts).Draw(t, fmt.Sprintf("%sn%dc%dtext", label, i, k)),
			})
		}
		th.Nodes = append(th.Nodes, ns)
	}
	n := rapid.IntRange(1, maxCalls).Draw(t, label+"ncalls")
	usedNode := map[int]bool{}
	for i := 0; i < n; i++ {
		l := fmt.Sprintf("%sc%d", label, i)
		c := JSCall{Node: -1}
		c.Args = DrawJSArgs(t, l+"a", false)
		if nn > 0 && rapid.IntRange(0, 9).Draw(t, l+"ctx") < 5 {
			c.Ctx = true
			c.Node = rapid.IntRange(0, nn-1).Draw(t, l+"node")
			if usedNode[c.Node] && rapid.IntRange(0, 9).Draw(t, l+"mut") < 6 {
				op := JSNodeOp{Kind: rapid.SampledFrom([]string{"settext", "settext", "addchild", "dropchild"}).Draw(t, l+"mutkind")}
				op.Child = rapid.IntRange(0, 3).Draw(t, l+"mutchild")
				op.Name = rapid.SampledFrom([]string{"a", "z"}).Draw(t, l+"mutname")
				op.Text = rapid.SampledFrom([]string{"changed", "1", "", "é2"}).Draw(t, l+"muttext")
				c.Mutate = &op
			}
			usedNode[c.Node] = true
		} else if rapid.IntRange(0, 9).Draw(t, l+"ctxnil") == 0 {
			c.Ctx = true // JavaScriptWithContext with a nil node behaves like JavaScript
		}
		c.Script, c.Probes = DrawJSScript(t, l+"s", jsNamesOf(c.Args), c.Ctx && c.Node >= 0)
		if len(c.Args) > 0 && rapid.IntRange(0, 7).Draw(t, l+"badName") == 0 {
			c.BadName = rapid.IntRange(1, len(c.Args)).Draw(t, l+"badNameAt")
		}
		th.Calls = append(th.Calls, c)
	}
	return th
}

// DrawJSFields draws the javascript fields of a schema (1..5).
func DrawJSFields(t *rapid.T, label string) []JSField {
	n := rapid.IntRange(1, 5).Draw(t, label+"n")
	var fs []JSField
	for i := 0; i < n; i++ {
		l := fmt.Sprintf("%s%d", label, i)
		f := JSField{Name: fmt.Sprintf("f%d", i)}
		f.Args = DrawJSArgs(t, l+"a", true)
		if rapid.IntRange(0, 9).Draw(t, l+"ctx") < 7 {
			f.Ctx = true
			f.XPath = rapid.SampledFrom([]string{"..", "..", "..", ".", "", "../.."}).Draw(t, l+"xpath")
		} else {
			f.XPath = rapid.SampledFrom([]string{"", "..", "."}).Draw(t, l+"xpath")
		}
		f.Script, f.Probes = DrawJSScript(t, l+"s", jsNamesOf(f.Args), f.Ctx)
		f.Script = strings.TrimSpace(f.Script)
		if rapid.IntRange(0, 4).Draw(t, l+"wrap") == 0 {
			f.Wrap = true
			f.XPath = rapid.SampledFrom([]string{"..", "c0", "c0", ".", "../.."}).Draw(t, l+"wrapAt")
		}
		fs = append(fs, f)
	}
	// the text of an earlier call once more, evaluated on another node of the same record
	if rapid.Bool().Draw(t, label+"dup") {
		src := fs[rapid.IntRange(0, len(fs)-1).Draw(t, label+"dupOf")]
		d := src
		d.Name = fmt.Sprintf("f%d", len(fs))
		d.Wrap = true
		var others []string
		for _, a := range []string{"..", "c0", ".", "../.."} {
			if a != src.XPath && !(a == "." && src.XPath == "") {
				others = append(others, a)
			}
		}
		d.XPath = rapid.SampledFrom(others).Draw(t, label+"dupAt")
		if !src.Wrap && src.XPath != "" {
			// the original carries its own xpath: give the copy's twin a bare form as well, so that two textually
			// identical declarations exist
			b := src
			b.Name = fmt.Sprintf("f%d", len(fs)+1)
			b.XPath = ""
			fs = append(fs, d, b)
		} else {
			fs = append(fs, d)
		}
	}
	return fs
}
