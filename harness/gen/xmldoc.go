package gen

// XML document generator shared by C04, C08 (and reusable by C11, C02): DrawXMLDoc draws a
// serialisable tree model (XMLDoc) from rapid; XMLDoc.Render writes the document text with an own
// writer (no encoding/xml involved). Every document drawn is well-formed and namespace-well-formed.

import (
	"fmt"
	"strings"

	"pgregory.net/rapid"
)

// XML node kinds.
const (
	XMLElem    = "elem"
	XMLText    = "text"
	XMLCData   = "cdata"
	XMLComment = "comment"
	XMLPI      = "pi"
)

// XMLAttr is one attribute as written. Namespace declarations are attributes too: xmlns:p="u" is
// {Prefix:"xmlns", Local:"p"}, xmlns="u" is {Prefix:"", Local:"xmlns"}.
type XMLAttr struct {
	Prefix string `json:"prefix,omitempty"`
	Local  string `json:"local"`
	Value  string `json:"value"`         // logical value
	Raw    string `json:"raw,omitempty"` // value as written between the quotes ("" = escape Value)
	Quote  string `json:"quote,omitempty"`
}

// IsNSDecl reports whether the attribute is a namespace declaration.
func (a XMLAttr) IsNSDecl() bool {
	return a.Prefix == "xmlns" || (a.Prefix == "" && a.Local == "xmlns")
}

// XMLNode is an element, a run of character data, a CDATA section, a comment or a PI.
type XMLNode struct {
	Kind      string     `json:"kind"`
	Prefix    string     `json:"prefix,omitempty"` // elem: prefix as written
	Local     string     `json:"local,omitempty"`  // elem: local name; pi: target
	URI       string     `json:"uri,omitempty"`    // elem: namespace URI the name resolves to (informational)
	Attrs     []XMLAttr  `json:"attrs,omitempty"`
	Children  []*XMLNode `json:"children,omitempty"`
	Text      string     `json:"text,omitempty"` // text: logical characters; cdata/comment/pi: body
	Raw       string     `json:"raw,omitempty"`  // text: as written, with references ("" = escape Text)
	SelfClose bool       `json:"self_close,omitempty"`
	TagSpace  string     `json:"tag_space,omitempty"` // white space before '>' of the start tag
}

// XMLDoc is a whole document.
type XMLDoc struct {
	Decl string     `json:"decl,omitempty"` // XML declaration as written, or ""
	Pre  []*XMLNode `json:"pre,omitempty"`  // comments / PIs / white space before the root
	Root *XMLNode   `json:"root"`
	Post []*XMLNode `json:"post,omitempty"`
}

// XMLOpts selects what DrawXMLDoc may produce. The zero value gives small plain documents over the
// names {a,b,c,r} with attribute k in {0,1,2} and text from {x,y,xx,1,5,blank}.
type XMLOpts struct {
	Names      []string // element local names
	RootNames  []string // names for the root element (default: mostly "r")
	MaxDepth   int      // deepest element level below the root (default 5)
	MaxKids    int      // most children per element (default 4)
	MaxNodes   int      // budget of elements + text runs (default 60)
	AttrNames  []string
	AttrValues []string
	Texts      []string
	TextProb   int  // per child slot, chance in 10 of character data instead of an element (default 3)
	SibRepeat  int  // chance in 10 that an element takes the local name of its preceding element sibling (record lists)
	HardText   bool // unicode, markup characters written as references, CR / LF / TAB, quotes
	Namespaces bool // default and prefixed declarations, re-declaration, one URI under two prefixes
	CDATA      bool
	Comments   bool
	PIs        bool
	Prolog     bool // XML declaration, misc before / after the root
	UniqueIDs  bool // every element gets id="n<preorder index>" as its first attribute
	TagSpace   bool // white-space variety inside tags, single-quoted attribute values
}

type xmlGen struct {
	t     *rapid.T
	o     XMLOpts
	nodes int
	elems int
}

type nsScope struct {
	prefixes []string // in declaration order, "" = default
	uris     map[string]string
}

func (s nsScope) clone() nsScope {
	c := nsScope{prefixes: append([]string{}, s.prefixes...), uris: map[string]string{}}
	for k, v := range s.uris {
		c.uris[k] = v
	}
	return c
}

func (s *nsScope) bind(prefix, uri string) {
	if _, ok := s.uris[prefix]; !ok {
		s.prefixes = append(s.prefixes, prefix)
	}
	s.uris[prefix] = uri
}

var (
	xmlNSPrefixes = []string{"p", "q", "s"}
	xmlNSURIs     = []string{"u0", "u1", "u2", "urn:x:3", "http://e.org/ns#4"}
	// the URI a prefix is "usually" bound to: keeps the share of documents in which one URI ends up
	// under two prefixes moderate (it still happens through the free choice below)
	xmlNSHome = map[string]string{"": "u0", "p": "u1", "q": "u2", "s": "urn:x:3"}
)

// hard text pieces: logical / raw pairs
var xmlHardPieces = [][2]string{
	{"<", "&lt;"}, {"&", "&amp;"}, {">", "&gt;"}, {"\"", "&quot;"}, {"\"", "\""}, {"'", "&apos;"}, {"'", "'"},
	{"A", "&#65;"}, {"A", "&#x41;"}, {"\U0001F600", "&#x1F600;"}, {"\U0001F600", "\U0001F600"}, {"é", "é"}, {"é", "&#233;"},
	{"中", "中"}, {" ", " "}, {" ", " "}, {"\t", "\t"}, {"\t", "&#9;"}, {"\n", "\n"}, {"\n", "&#10;"},
	{"\r", "&#13;"}, {" ", " "}, {"  ", "  "}, {"]]", "]]"}, {"]", "]"}, {"x", "x"}, {"y", "y"}, {"1", "1"}, {"-", "-"},
	{"&lt;", "&amp;lt;"}, {"#", "#"}, {"ab", "ab"},
}

func (g *xmlGen) pick(label string, xs []string) string {
	return rapid.SampledFrom(xs).Draw(g.t, label)
}

// chance is true in about n of outOf draws. The minimal draw (what rapid shrinks towards) is false, so
// shrunk documents lose their optional decoration.
func (g *xmlGen) chance(label string, n, outOf int) bool {
	return rapid.IntRange(0, outOf-1).Draw(g.t, label) >= outOf-n
}

// text draws a logical / raw pair of character data (raw never holds '<', a bare '&' or a bare '>': adjacent
// runs are concatenated in the document, so "]]" + ">" must not be able to meet).
func (g *xmlGen) text(label string, attr bool) (string, string) {
	if !g.o.HardText || g.chance(label+"plain", 4, 10) {
		s := g.pick(label, g.o.Texts)
		return s, ""
	}
	n := rapid.IntRange(1, 4).Draw(g.t, label+"n")
	var lo, ra strings.Builder
	for i := 0; i < n; i++ {
		p := rapid.SampledFrom(xmlHardPieces).Draw(g.t, label+"piece")
		l, r := p[0], p[1]
		if attr && (r == "\"" || r == "'") {
			// the writer chooses the quote later; keep quotes inside attribute values escaped
			if l == "\"" {
				r = "&quot;"
			} else {
				r = "&apos;"
			}
		}
		lo.WriteString(l)
		ra.WriteString(r)
	}
	return lo.String(), ra.String()
}

func (g *xmlGen) element(depth int, scope nsScope, isRoot bool, prevSib string) *XMLNode {
	g.nodes++
	e := &XMLNode{Kind: XMLElem}
	switch {
	case isRoot:
		e.Local = g.pick("rootname", g.o.RootNames)
	case prevSib != "" && g.o.SibRepeat > 0 && g.chance("sibrepeat", g.o.SibRepeat, 10):
		e.Local = prevSib
	default:
		e.Local = g.pick("name", g.o.Names)
	}
	idx := g.elems
	g.elems++
	if g.o.UniqueIDs {
		e.Attrs = append(e.Attrs, XMLAttr{Local: "id", Value: fmt.Sprintf("n%d", idx)})
	}
	if g.o.Namespaces {
		scope = scope.clone()
		nd := 0
		switch {
		case isRoot:
			nd = rapid.IntRange(0, 3).Draw(g.t, "nsdecls")
		case g.chance("nsdeclhere", 3, 10):
			nd = rapid.IntRange(1, 2).Draw(g.t, "nsdecls")
		}
		declared := map[string]bool{}
		for i := 0; i < nd; i++ {
			var p string
			if g.chance("nsdefault", 3, 10) {
				p = ""
			} else {
				p = g.pick("nsprefix", xmlNSPrefixes)
			}
			if declared[p] {
				continue // an element may not carry the same attribute twice
			}
			declared[p] = true
			u := xmlNSHome[p]
			if g.chance("nsfree", 2, 10) {
				u = g.pick("nsuri", xmlNSURIs)
			}
			if p == "" {
				if _, had := scope.uris[""]; had && scope.uris[""] != "" && g.chance("nsundeclare", 1, 6) {
					u = "" // xmlns="" un-declares the default namespace
				}
				e.Attrs = append(e.Attrs, XMLAttr{Local: "xmlns", Value: u})
			} else {
				e.Attrs = append(e.Attrs, XMLAttr{Prefix: "xmlns", Local: p, Value: u})
			}
			scope.bind(p, u)
		}
		// element prefix from the bindings in scope
		var usable []string
		for _, p := range scope.prefixes {
			if p != "" {
				usable = append(usable, p)
			}
		}
		if len(usable) > 0 && g.chance("prefixed", 5, 10) {
			e.Prefix = g.pick("elprefix", usable)
			e.URI = scope.uris[e.Prefix]
		} else {
			e.URI = scope.uris[""]
		}
	}
	// ordinary attributes
	na := 0
	if len(g.o.AttrNames) > 0 {
		na = rapid.IntRange(0, 2).Draw(g.t, "nattrs")
		if na > 0 && len(g.o.AttrNames) == 1 {
			na = 1
		}
	}
	used := map[string]bool{}
	for i := 0; i < na; i++ {
		a := XMLAttr{Local: g.pick("attrname", g.o.AttrNames)}
		if g.o.Namespaces && g.chance("attrprefixed", 3, 10) {
			var usable []string
			for _, p := range scope.prefixes {
				if p != "" {
					usable = append(usable, p)
				}
			}
			usable = append(usable, "xml")
			a.Prefix = g.pick("attrprefix", usable)
			if a.Prefix == "xml" {
				a.Local = g.pick("xmlattr", []string{"lang", "space"})
			}
		}
		// two attributes of one element must differ in (URI, local); different prefixes may share a
		// URI, so key by URI
		key := a.Local
		if a.Prefix != "" {
			key = scope.uris[a.Prefix] + "|" + a.Local
			if a.Prefix == "xml" {
				key = "xml|" + a.Local
			}
		}
		if used[key] {
			continue
		}
		used[key] = true
		if g.o.HardText && g.chance("attrhard", 4, 10) {
			a.Value, a.Raw = g.text("attrval", true)
		} else {
			a.Value = g.pick("attrval", g.o.AttrValues)
		}
		e.Attrs = append(e.Attrs, a)
	}
	if g.o.Namespaces && len(e.Attrs) > 1 && g.chance("shuffleattrs", 3, 10) {
		// declarations need not come first
		first := 0
		if g.o.UniqueIDs {
			first = 1
		}
		if len(e.Attrs)-first > 1 {
			i := rapid.IntRange(first, len(e.Attrs)-1).Draw(g.t, "swapi")
			j := rapid.IntRange(first, len(e.Attrs)-1).Draw(g.t, "swapj")
			e.Attrs[i], e.Attrs[j] = e.Attrs[j], e.Attrs[i]
		}
	}
	if g.o.TagSpace {
		for i := range e.Attrs {
			if g.chance("squote", 3, 10) {
				e.Attrs[i].Quote = "'"
			}
		}
		e.TagSpace = g.pick("tagspace", []string{"", "", "", " ", "\n", "  "})
	}
	// children
	nk := 0
	if depth < g.o.MaxDepth && g.nodes < g.o.MaxNodes {
		hi := g.o.MaxKids
		if isRoot {
			hi += 2 // the usual shape of real inputs: a root with a list of records below it
		}
		nk = rapid.IntRange(0, hi).Draw(g.t, "nkids")
		if depth <= 2 {
			// rapid's integer draws lean towards the low end; documents need some width near the top
			if k2 := rapid.IntRange(0, hi).Draw(g.t, "nkids2"); k2 > nk {
				nk = k2
			}
		}
		if isRoot && nk < 3 && g.chance("rootnonempty", 9, 10) {
			nk = 3 + rapid.IntRange(0, 2).Draw(g.t, "rootkids")
		}
		if depth == 1 && nk == 0 && g.chance("recnonempty", 5, 10) {
			nk = 1 + rapid.IntRange(0, 2).Draw(g.t, "reckids")
		}
	}
	prev := ""
	for i := 0; i < nk && g.nodes < g.o.MaxNodes; i++ {
		r := rapid.IntRange(0, 9).Draw(g.t, "kidkind")
		switch {
		case r < g.o.TextProb:
			g.nodes++
			l, raw := g.text("text", false)
			e.Children = append(e.Children, &XMLNode{Kind: XMLText, Text: l, Raw: raw})
			if g.o.CDATA && g.chance("cdata", 3, 10) {
				body := g.pick("cdatabody", []string{"x", "", "<a>&amp;</a>", "]]", " y ", "1", "]>", "\n", "é<"})
				e.Children = append(e.Children, &XMLNode{Kind: XMLCData, Text: body})
			}
		default:
			k := g.element(depth+1, scope, false, prev)
			prev = k.Local
			e.Children = append(e.Children, k)
		}
		if g.o.Comments && g.chance("comment", 1, 8) {
			e.Children = append(e.Children, &XMLNode{Kind: XMLComment,
				Text: g.pick("commentbody", []string{"", " c ", "<a/>", "&amp;", "x-y", "\n"})})
		}
		if g.o.PIs && g.chance("pi", 1, 10) {
			e.Children = append(e.Children, &XMLNode{Kind: XMLPI, Local: g.pick("pitarget", []string{"pi", "a", "x-s"}),
				Text: g.pick("pibody", []string{"", "k=\"1\"", "<a>", "? >"})})
		}
	}
	if len(e.Children) == 0 && g.chance("selfclose", 5, 10) {
		e.SelfClose = true
	}
	return e
}

func (o XMLOpts) withDefaults() XMLOpts {
	if len(o.Names) == 0 {
		o.Names = []string{"a", "b", "c", "r"}
	}
	if len(o.RootNames) == 0 {
		o.RootNames = append([]string{"r", "r", "r", "r"}, o.Names...)
	}
	if o.MaxDepth == 0 {
		o.MaxDepth = 5
	}
	if o.MaxKids == 0 {
		o.MaxKids = 4
	}
	if o.MaxNodes == 0 {
		o.MaxNodes = 60
	}
	if o.AttrNames == nil {
		o.AttrNames = []string{"k"}
	}
	if len(o.AttrValues) == 0 {
		o.AttrValues = []string{"0", "1", "2"}
	}
	if len(o.Texts) == 0 {
		o.Texts = []string{"x", "y", "xx", "1", "5", " ", "\n"}
	}
	if o.TextProb == 0 {
		o.TextProb = 3
	}
	return o
}

// DrawXMLDoc draws one document.
func DrawXMLDoc(t *rapid.T, o XMLOpts) XMLDoc {
	g := &xmlGen{t: t, o: o.withDefaults()}
	d := XMLDoc{}
	misc := func(label string) []*XMLNode {
		var out []*XMLNode
		n := rapid.IntRange(0, 2).Draw(t, label)
		for i := 0; i < n; i++ {
			switch {
			case g.o.Comments && g.chance(label+"c", 4, 10):
				out = append(out, &XMLNode{Kind: XMLComment, Text: " misc "})
			case g.o.PIs && g.chance(label+"p", 4, 10):
				out = append(out, &XMLNode{Kind: XMLPI, Local: "pi", Text: "z"})
			default:
				out = append(out, &XMLNode{Kind: XMLText, Text: g.pick(label+"ws", []string{"\n", " ", "\n  "})})
			}
		}
		return out
	}
	if g.o.Prolog {
		d.Decl = g.pick("decl", []string{"", "", `<?xml version="1.0"?>`, `<?xml version="1.0" encoding="UTF-8"?>`,
			`<?xml version='1.0' encoding='utf-8' standalone='yes'?>`})
		d.Pre = misc("pre")
	}
	d.Root = g.element(0, nsScope{uris: map[string]string{}}, true, "")
	if g.o.Prolog {
		d.Post = misc("post")
	}
	return d
}

// XMLEscapeText escapes character data minimally ('&', '<', '>', CR).
func XMLEscapeText(s string) string {
	var sb strings.Builder
	for _, r := range s {
		switch r {
		case '&':
			sb.WriteString("&amp;")
		case '<':
			sb.WriteString("&lt;")
		case '>':
			sb.WriteString("&gt;")
		case '\r':
			sb.WriteString("&#13;")
		default:
			sb.WriteRune(r)
		}
	}
	return sb.String()
}

func xmlEscapeAttr(s, quote string) string {
	var sb strings.Builder
	for _, r := range s {
		switch {
		case r == '&':
			sb.WriteString("&amp;")
		case r == '<':
			sb.WriteString("&lt;")
		case r == '\r':
			sb.WriteString("&#13;")
		case r == '\n':
			sb.WriteString("&#10;")
		case r == '\t':
			sb.WriteString("&#9;")
		case r == '"' && quote == "\"":
			sb.WriteString("&quot;")
		case r == '\'' && quote == "'":
			sb.WriteString("&apos;")
		default:
			sb.WriteRune(r)
		}
	}
	return sb.String()
}

func (n *XMLNode) qname() string {
	if n.Prefix != "" {
		return n.Prefix + ":" + n.Local
	}
	return n.Local
}

func (n *XMLNode) render(sb *strings.Builder) {
	switch n.Kind {
	case XMLText:
		if n.Raw != "" {
			sb.WriteString(n.Raw)
		} else {
			sb.WriteString(XMLEscapeText(n.Text))
		}
	case XMLCData:
		sb.WriteString("<![CDATA[" + n.Text + "]]>")
	case XMLComment:
		sb.WriteString("<!--" + n.Text + "-->")
	case XMLPI:
		sb.WriteString("<?" + n.Local)
		if n.Text != "" {
			sb.WriteString(" " + n.Text)
		}
		sb.WriteString("?>")
	case XMLElem:
		sb.WriteString("<" + n.qname())
		for _, a := range n.Attrs {
			q := a.Quote
			if q == "" {
				q = "\""
			}
			sb.WriteString(" ")
			if a.Prefix != "" {
				sb.WriteString(a.Prefix + ":")
			}
			sb.WriteString(a.Local + "=" + q)
			if a.Raw != "" {
				sb.WriteString(a.Raw)
			} else {
				sb.WriteString(xmlEscapeAttr(a.Value, q))
			}
			sb.WriteString(q)
		}
		sb.WriteString(n.TagSpace)
		if n.SelfClose && len(n.Children) == 0 {
			sb.WriteString("/>")
			return
		}
		sb.WriteString(">")
		for _, c := range n.Children {
			c.render(sb)
		}
		sb.WriteString("</" + n.qname() + n.TagSpace + ">")
	}
}

// Render writes the document text.
func (d XMLDoc) Render() string {
	var sb strings.Builder
	sb.WriteString(d.Decl)
	for _, n := range d.Pre {
		n.render(&sb)
	}
	d.Root.render(&sb)
	for _, n := range d.Post {
		n.render(&sb)
	}
	return sb.String()
}

// XMLElemInfo describes one element of a drawn document for generators that want to aim an xpath at
// something that exists: the chain of qualified names from the root down to the element.
type XMLElemInfo struct {
	Chain    []string // names from the root element to this element
	Attrs    []XMLAttr
	KidNames []string // names of element children
	Text     string   // concatenated character data of the whole subtree
}

// Elements lists every element of the document in document order.
func (d XMLDoc) Elements() []XMLElemInfo {
	var out []XMLElemInfo
	var walk func(n *XMLNode, chain []string) string
	walk = func(n *XMLNode, chain []string) string {
		chain = append(append([]string{}, chain...), n.qname())
		idx := len(out)
		out = append(out, XMLElemInfo{Chain: chain, Attrs: n.Attrs})
		var txt strings.Builder
		var kids []string
		for _, c := range n.Children {
			switch c.Kind {
			case XMLElem:
				kids = append(kids, c.qname())
				txt.WriteString(walk(c, chain))
			case XMLText, XMLCData:
				txt.WriteString(c.Text)
			}
		}
		out[idx].KidNames = kids
		out[idx].Text = txt.String()
		return txt.String()
	}
	walk(d.Root, nil)
	return out
}

// TruePreds lists stream-target-class predicates (see xpathstream.go) that hold for the element, built
// from the model alone.
func (e XMLElemInfo) TruePreds(names []string) []string {
	var out []string
	lit := func(s string) (string, bool) {
		switch {
		case !strings.Contains(s, "'"):
			return "'" + s + "'", true
		case !strings.Contains(s, "\""):
			return "\"" + s + "\"", true
		}
		return "", false
	}
	hasAttr := map[string]bool{}
	for _, a := range e.Attrs {
		if a.IsNSDecl() || a.Prefix != "" {
			continue
		}
		hasAttr[a.Local] = true
		out = append(out, "[@"+a.Local+"]")
		if l, ok := lit(a.Value); ok {
			out = append(out, "[@"+a.Local+"="+l+"]", "[@"+a.Local+"="+l+"]", "[@"+a.Local+"="+l+"]")
		}
	}
	if !hasAttr["k"] {
		out = append(out, "[not(@k)]")
	}
	kid := map[string]int{}
	for _, k := range e.KidNames {
		kid[k]++
	}
	for _, n := range names {
		if strings.Contains(n, ":") {
			continue
		}
		switch kid[n] {
		case 0:
			if len(e.KidNames) > 0 { // on a leaf this says little; [not(*)] covers it
				out = append(out, "[not("+n+")]")
			}
		case 1:
			out = append(out, "["+n+"]", "[count("+n+")=1]")
		default:
			out = append(out, "["+n+"]", "[count("+n+")>1]")
		}
	}
	switch len(e.KidNames) {
	case 0:
		out = append(out, "[not(*)]")
	case 1:
		out = append(out, "[*]", "[count(*)=1]")
	default:
		out = append(out, "[*]", "[count(*)>1]")
	}
	if l, ok := lit(e.Text); ok && len(e.Text) <= 12 {
		out = append(out, "[.="+l+"]", "[.="+l+"]")
		if len(e.Text) > 1 {
			out = append(out, "[string-length(.)>1]")
			if l1, ok := lit(e.Text[:1]); ok && e.Text[0] < 0x80 {
				out = append(out, "[starts-with(.,"+l1+")]")
			}
		}
	}
	for _, x := range []string{"x", "y", "1"} {
		if strings.Contains(e.Text, x) {
			out = append(out, "[contains(.,'"+x+"')]")
		}
	}
	return out
}
