// Package gen holds the generators shared by the full-stack properties: a Shape (file format,
// layout variant, transform flavour) with a pure Schema() and a pure Render(records), plus
// record / value generators. Everything random is drawn from rapid; Schema and Render are pure
// functions of the drawn values so that a case is fully described by (Shape, []Rec).
package gen

import (
	"bytes"
	"encoding/json"
	"fmt"
	"strings"
	"unicode/utf8"

	"pgregory.net/rapid"
)

// Formats lists the seven built-in file formats.
var Formats = []string{"csv", "csv2", "fixed-length", "fixedlength2", "edi", "json", "xml"}

// EDIDelims is the delimiter configuration of an EDI shape.
type EDIDelims struct {
	Seg     string `json:"seg"`
	Elem    string `json:"elem"`
	Comp    string `json:"comp,omitempty"`
	Rep     string `json:"rep,omitempty"`
	Release string `json:"release,omitempty"`
	IgnCRLF bool   `json:"ign_crlf,omitempty"`
	// EOL (only with IgnCRLF): CR/LF bytes written after every segment delimiter; removed before tokenizing. The long
	// form is a run of 120 such bytes (more than the 100 consecutive empty reads a bufio consumer tolerates, should a
	// filtering reader ever turn CR/LF-only reads into empty ones).
	EOL string `json:"eol,omitempty"`
}

// Shape describes format, layout and transform of a case.
type Shape struct {
	Format   string     `json:"format"`
	Variant  int        `json:"variant"`
	NCols    int        `json:"ncols"`
	NSub     int        `json:"nsub"` // number of sub-record columns; 0 = no sub-records
	Delim    string     `json:"delim,omitempty"`
	Widths   []int      `json:"widths,omitempty"`
	SubW     []int      `json:"subw,omitempty"`
	CRLF     bool       `json:"crlf,omitempty"`
	Encoding string     `json:"encoding,omitempty"`
	BOM      bool       `json:"bom,omitempty"`
	Xform    int        `json:"xform"`   // 0 pass-through, 1 rich, 2 javascript
	IntCol   int        `json:"int_col"` // column cast to int, -1 none
	Filter   bool       `json:"filter"`
	Header   bool       `json:"header,omitempty"`   // old csv: header row present
	Preamble int        `json:"preamble,omitempty"` // old csv: junk lines before the header
	Skip     int        `json:"skip,omitempty"`     // old csv: junk lines between the header (or the start) and the first data row
	EDI      *EDIDelims `json:"edi,omitempty"`
	Envelope bool       `json:"envelope,omitempty"` // edi/xml/json: records wrapped in a non-target envelope
	// ReplaceQuotes sets replace_double_quotes (csv, csv2): the reader stack gets a quote-replacing reader. Quoted
	// fields then lose their quoting, so only properties that make no per-record assumption enable it.
	ReplaceQuotes bool `json:"replace_quotes,omitempty"`
	// FLRows is the number of rows of the multi-row fixedlength2 layout (variant 1): 0 means 2; FLBlank puts a
	// blank line between the rows of a record (blank lines are skipped by the reader).
	// QuoteInFilter: the filter's literal contains an apostrophe (token SK'P, written in double quotes in the xpath)
	QuoteInFilter bool `json:"quote_in_filter,omitempty"`
	// Grouped (xml): every record sits in its own <grp t="A"> element, records the filter rejects in <grp t="B">; the
	// record filter is then a predicate on a NON-final step of the FINAL_OUTPUT xpath (/root/grp[@t='A']/rec).
	Grouped bool `json:"grouped,omitempty"`
	// EDIRootRepeat (edi without envelope): REC is declared with max 1, so that every further REC of the input starts the
	// top-level declaration sequence over under a fresh root (documented top-level repetition) instead of repeating
	// inside one root.
	EDIRootRepeat bool `json:"edi_root_repeat,omitempty"`
	// JSONKeyed (json; set by C17 only, never drawn): the records are not elements of an array but properties of one object,
	// each under its own name k<position> ("object keyed by id"); the target xpath (/items/* or /*) is the same.
	JSONKeyed bool `json:"json_keyed,omitempty"`
	// PosFilter (xml; set by C17 only, never drawn): the FINAL_OUTPUT xpath ends in the positional predicate
	// [position() <= 1000000] (true for every candidate) instead of the value filter.
	PosFilter bool `json:"pos_filter,omitempty"`
	// XMLMixed (xml, not grouped): the target records do not all carry the same element name (rec / itm, by the byte length of
	// the first value) and the FINAL_OUTPUT xpath ends in the wildcard step * instead of the name.
	XMLMixed bool `json:"xml_mixed,omitempty"`
	// FlatGroup (csv2 / fixedlength2): the record declarations are wrapped in one group, repeatable without bound, whose first
	// member is the target record.
	FlatGroup bool `json:"flat_group,omitempty"`
	// XMLAttr (xml, pass-through transform, >= 2 columns, last column not the int column): the LAST column is not written as
	// an element but as attribute a of the (text-only) element c0, <c0 a="...">text</c0>, and read with the xpath c0/@a.
	XMLAttr bool `json:"xml_attr,omitempty"`
	// XMLDecl (xml): when non-empty the document starts with an XML declaration carrying this encoding label (the xml
	// decoder applies the label on top of whatever parser_settings.encoding already did)
	XMLDecl string `json:"xml_decl,omitempty"`
	// XMLText (xml): how field values are written as character data: 0 escaped text; 1 one CDATA section; 2 text followed by
	// a CDATA section; 3 text, a comment, text; 4 two adjacent CDATA sections; 5 text, a processing instruction, text. The
	// character data of the element is the same in every mode (several adjacent text nodes in the tree for 2..5).
	XMLText int `json:"xml_text,omitempty"`
	// XMLNS (xml): 0 no namespaces; 1 the root element declares a default namespace; 2 as 1 and every record element whose first
	// value has an even byte length re-declares the same default namespace; 3 as 1 and the root also declares two unused prefixes, one of them
	// re-declared (same URI) on those records; 4 the root element carries no attribute at all and the default namespace
	// is first declared on a nested element (the body of the envelope, else every record). Element names stay unprefixed, so
	// schema xpaths are unaffected.
	XMLNS   int  `json:"xml_ns,omitempty"`
	FLRows  int  `json:"fl_rows,omitempty"`
	// FLSpaceMark (old fixed-length, by_rows layout): the first row of a record is recognised by "A" or a blank in
	// column 1 (line_pattern "^[A ]"), so a record whose first-row values are all empty has a white-space-only first row.
	FLSpaceMark bool `json:"fl_space_mark,omitempty"`
	// HostZone adds output fields computed by the date/time functions called WITHOUT a time zone argument (set by C15
	// only, whose fresh-process run has another local time zone than this process).
	HostZone bool `json:"host_zone,omitempty"`
	FLBlank bool `json:"fl_blank,omitempty"`
}

func (s Shape) flRows() int {
	if s.FLRows >= 2 {
		return s.FLRows
	}
	return 2
}

// Rec is one logical record.
type Rec struct {
	Vals []string   `json:"vals"`
	Subs [][]string `json:"subs,omitempty"`
	// Dup renders the first column twice (xml only), so that a field xpath on it matches two nodes.
	Dup bool `json:"dup,omitempty"`
	// RawLine, when non-empty, replaces the rendered record by this text (plus line end) in the line-oriented
	// formats: a malformed row.
	RawLine string `json:"raw_line,omitempty"`
	// BlankA (old fixed-length, by_rows layout with Shape.FLSpaceMark): the first row of the record is rendered with a
	// blank in place of the row marker; its values are all empty, so the row consists of white space only.
	BlankA bool `json:"blank_a,omitempty"`
}

// BoomToken as value of c0 makes the javascript transform flavour (Xform 2) throw.
const BoomToken = "BOOM"

// HasSubs says whether the shape carries sub-records.
func (s Shape) HasSubs() bool { return s.NSub > 0 }

func colName(i int) string { return fmt.Sprintf("c%d", i) }

// attrCol says whether column i is the one written as an attribute of c0 (XMLAttr).
func (s Shape) attrCol(i int) bool {
	return s.Format == "xml" && s.XMLAttr && s.Xform == 0 && s.NCols >= 2 && i == s.NCols-1
}
func subName(i int) string { return fmt.Sprintf("s%d", i) }

// ---------------------------------------------------------------------------------------------
// generators

// ShapeOpts narrows what DrawShape may produce.
type ShapeOpts struct {
	Formats   []string // nil: all seven
	NoFilter  bool
	NoJS      bool
	NoIntCol  bool
	PlainOnly bool // pass-through transform only
	MaxXform  int  // > 0: draw the transform flavour from 0..MaxXform (3 = cache-sensitive flavour)
	// AllowReplaceQuotes lets csv / csv2 shapes set replace_double_quotes
	AllowReplaceQuotes bool
	Encodings          []string
}

// DrawShape draws a shape.
func DrawShape(t *rapid.T, o ShapeOpts) Shape {
	fs := o.Formats
	if fs == nil {
		fs = Formats
	}
	s := Shape{Format: rapid.SampledFrom(fs).Draw(t, "format"), IntCol: -1}
	s.NCols = rapid.IntRange(1, 4).Draw(t, "ncols")
	s.Variant = rapid.IntRange(0, 2).Draw(t, "variant")
	s.CRLF = rapid.Bool().Draw(t, "crlf")
	switch s.Format {
	case "csv":
		s.Delim = rapid.SampledFrom([]string{",", "|", "\t", ";", "§"}).Draw(t, "delim")
		s.Header = rapid.Bool().Draw(t, "header")
		if s.Header {
			s.Preamble = rapid.IntRange(0, 2).Draw(t, "preamble")
		}
		s.Skip = rapid.SampledFrom([]int{0, 0, 1, 2}).Draw(t, "skip")
	case "csv2":
		s.Delim = rapid.SampledFrom([]string{",", "|", "\t", ";", "§"}).Draw(t, "delim")
		if s.Variant == 2 {
			s.NSub = rapid.IntRange(1, 2).Draw(t, "nsub")
		}
	case "fixed-length":
		s.Widths = drawWidths(t, s.NCols, "w")
		if s.Variant == 1 {
			s.FLSpaceMark = rapid.Bool().Draw(t, "flspacemark")
		}
	case "fixedlength2":
		s.Widths = drawWidths(t, s.NCols, "w")
		if s.Variant == 1 {
			s.FLRows = rapid.SampledFrom([]int{2, 2, 3, 4}).Draw(t, "flrows")
			s.FLBlank = rapid.IntRange(0, 2).Draw(t, "flblank") == 0
		}
		if s.Variant == 2 {
			s.NSub = rapid.IntRange(1, 2).Draw(t, "nsub")
			s.SubW = drawWidths(t, s.NSub, "sw")
		}
	case "edi":
		d := EDIDelims{}
		d.Seg = rapid.SampledFrom([]string{"~", "\n", "'", "\r\n", "~\n"}).Draw(t, "segd")
		d.Elem = rapid.SampledFrom([]string{"*", "+", "|"}).Draw(t, "elemd")
		if rapid.Bool().Draw(t, "hasComp") {
			d.Comp = ":"
		}
		if rapid.Bool().Draw(t, "hasRel") {
			d.Release = "?"
		}
		if !strings.Contains(d.Seg, "\n") {
			d.IgnCRLF = rapid.Bool().Draw(t, "ignCRLF")
			if d.IgnCRLF {
				d.EOL = rapid.SampledFrom([]string{"", "\n", "\r\n", "\r\n", "\n\n", strings.Repeat("\r\n", 60)}).Draw(t, "ediEOL")
			}
		}
		s.EDI = &d
		s.Envelope = rapid.Bool().Draw(t, "envelope")
		if !s.Envelope {
			s.EDIRootRepeat = rapid.IntRange(0, 2).Draw(t, "ediRootRepeat") == 0
		}
		if rapid.Bool().Draw(t, "hasSub") {
			s.NSub = rapid.IntRange(1, 2).Draw(t, "nsub")
		}
	case "json", "xml":
		s.Envelope = rapid.Bool().Draw(t, "envelope")
		if s.Format == "xml" {
			s.Grouped = rapid.IntRange(0, 2).Draw(t, "grouped") == 0
			if rapid.IntRange(0, 2).Draw(t, "xmlTextSplit") == 0 {
				s.XMLText = rapid.IntRange(1, 5).Draw(t, "xmlText")
			}
			if rapid.IntRange(0, 2).Draw(t, "xmlNamespaces") == 0 {
				s.XMLNS = rapid.IntRange(1, 4).Draw(t, "xmlNS")
			}
		}
		if rapid.Bool().Draw(t, "hasSub") {
			s.NSub = rapid.IntRange(1, 2).Draw(t, "nsub")
		}
	}
	if !o.PlainOnly {
		max := 2
		if o.NoJS {
			max = 1
		}
		if o.MaxXform > 0 {
			max = o.MaxXform
		}
		s.Xform = rapid.IntRange(0, max).Draw(t, "xform")
	}
	if !o.NoIntCol && rapid.IntRange(0, 2).Draw(t, "hasInt") > 0 {
		s.IntCol = rapid.IntRange(0, s.NCols-1).Draw(t, "intcol")
	}
	if !o.NoFilter {
		s.Filter = rapid.IntRange(0, 3).Draw(t, "filter") == 0
		if s.Format != "edi" {
			s.QuoteInFilter = rapid.IntRange(0, 2).Draw(t, "quoteInFilter") == 0
		}
	}
	if len(o.Encodings) > 0 {
		s.Encoding = rapid.SampledFrom(o.Encodings).Draw(t, "encoding")
	}
	if o.AllowReplaceQuotes && (s.Format == "csv" || s.Format == "csv2") {
		s.ReplaceQuotes = rapid.IntRange(0, 3).Draw(t, "replaceQuotes") == 0
	}
	if s.Format == "xml" && s.Xform == 0 && s.NCols >= 2 && s.IntCol != s.NCols-1 {
		s.XMLAttr = rapid.IntRange(0, 3).Draw(t, "xmlAttr") == 0
	}
	if s.Format == "csv2" || s.Format == "fixedlength2" {
		s.FlatGroup = rapid.IntRange(0, 3).Draw(t, "flatGroup") == 0
	}
	if s.Format == "xml" && !s.Grouped {
		s.XMLMixed = rapid.IntRange(0, 3).Draw(t, "xmlMixed") == 0
	}
	return s
}

func drawWidths(t *rapid.T, n int, label string) []int {
	ws := make([]int, n)
	for i := range ws {
		ws[i] = rapid.IntRange(1, 6).Draw(t, fmt.Sprintf("%s%d", label, i))
	}
	return ws
}

// ValueOpts controls the value alphabet.
type ValueOpts struct {
	ASCIIOnly bool
	MaxLen    int
}

var baseRunes = []rune("abXY09 _-.")
var wideRunes = []rune("é€日𝄞ß")

// DrawValue draws a field value suitable for the shape's format (special runes of the format are
// favoured where the format can carry them).
func DrawValue(t *rapid.T, s Shape, label string, width int, o ValueOpts) string {
	special := []rune{}
	switch s.Format {
	case "csv", "csv2":
		special = append(special, []rune(s.Delim)...)
		special = append(special, '"', ',', '\'')
		if s.Format == "csv2" && s.Variant != 2 {
			special = append(special, '\n')
		}
	case "edi":
		if s.EDI.Release != "" {
			for _, d := range []string{s.EDI.Seg, s.EDI.Elem, s.EDI.Comp, s.EDI.Release} {
				for _, r := range d {
					if r != '\r' && r != '\n' {
						special = append(special, r)
					}
				}
			}
		}
	case "json":
		special = append(special, '"', '\\', '\n', '<', '&', '\t')
	case "xml":
		special = append(special, '<', '&', '>', '"', '\'')
	}
	alpha := append([]rune{}, baseRunes...)
	alpha = append(alpha, special...)
	alpha = append(alpha, special...)
	if !o.ASCIIOnly {
		alpha = append(alpha, wideRunes...)
	}
	maxLen := o.MaxLen
	if maxLen == 0 {
		maxLen = 6
	}
	if width > 0 && maxLen > width {
		maxLen = width
	}
	// now and then a value that looks like an escape sequence or markup of some OTHER layer (JSON escapes written out as
	// text, entity references, format verbs): it must travel as the literal text it is
	if rapid.IntRange(0, 11).Draw(t, label+"tok") == 0 {
		tok := rapid.SampledFrom([]string{`\u0026`, `a\u003cb`, `\u003e`, `\n`, `\"`, "&amp;", "&#65;", "%s", "%!d(x)", "null", "{{x}}", `\\`}).Draw(t, label+"token")
		if (width == 0 || len(tok) <= width) && len(tok) <= maxLen+4 {
			return tok
		}
	}
	n := rapid.IntRange(0, maxLen).Draw(t, label+"len")
	rs := make([]rune, n)
	for i := range rs {
		rs[i] = alpha[rapid.IntRange(0, len(alpha)-1).Draw(t, label)]
	}
	v := string(rs)
	if s.Format == "fixed-length" || s.Format == "fixedlength2" {
		v = strings.Map(func(r rune) rune {
			if r == '\n' || r == '\r' {
				return ' '
			}
			return r
		}, v)
	}
	return v
}

// DrawRec draws one record for the shape. kind: 0 normal, 1 failing (non-numeric int column when the
// shape has one), 2 filtered out (c0 == SKIP when the shape filters).
func DrawRec(t *rapid.T, s Shape, label string, kind int, o ValueOpts) Rec {
	r := Rec{Vals: make([]string, s.NCols)}
	for i := range r.Vals {
		w := 0
		if len(s.Widths) > i {
			w = s.Widths[i]
		}
		if i == s.IntCol {
			if kind == 1 {
				r.Vals[i] = "x"
			} else {
				max := 99999
				if w > 0 && w < 5 {
					max = []int{0, 9, 99, 999, 9999}[w]
				}
				r.Vals[i] = fmt.Sprint(rapid.IntRange(0, max).Draw(t, label+"int"))
			}
			continue
		}
		r.Vals[i] = DrawValue(t, s, fmt.Sprintf("%sv%d", label, i), w, o)
	}
	if s.Filter && s.IntCol != 0 {
		if kind == 2 {
			r.Vals[0] = s.SkipToken()
		} else if strings.HasPrefix(r.Vals[0], s.SkipToken()) {
			r.Vals[0] = "k"
		}
	}
	if s.Format == "fixed-length" && s.Variant == 1 && s.FLSpaceMark && kind == 0 && (s.IntCol < 0 || s.IntCol%2 == 1) &&
		rapid.Bool().Draw(t, label+"blankA") {
		r.BlankA = true
		for i := 0; i < len(r.Vals); i += 2 {
			r.Vals[i] = ""
		}
	}
	if s.HasSubs() {
		n := rapid.IntRange(0, 3).Draw(t, label+"nsubs")
		for j := 0; j < n; j++ {
			sub := make([]string, s.NSub)
			for k := range sub {
				w := 0
				if len(s.SubW) > k {
					w = s.SubW[k]
				}
				sub[k] = DrawValue(t, s, fmt.Sprintf("%ss%d_%d", label, j, k), w, o)
			}
			r.Subs = append(r.Subs, sub)
		}
	}
	return r
}

// SkipToken is the c0 value the FINAL_OUTPUT filter rejects.
func (s Shape) SkipToken() string {
	tok := "SKIP"
	if s.QuoteInFilter {
		tok = "SK'P"
	}
	if len(s.Widths) > 0 && s.Widths[0] < 4 {
		return tok[:s.Widths[0]]
	}
	return tok
}

// DrawRecs draws a list of records with a mixture of normal, failing and filtered-out ones.
func DrawRecs(t *rapid.T, s Shape, label string, min, max int, o ValueOpts) []Rec {
	n := rapid.IntRange(min, max).Draw(t, label+"n")
	recs := make([]Rec, n)
	for i := range recs {
		kind := 0
		k := rapid.IntRange(0, 9).Draw(t, fmt.Sprintf("%s%dkind", label, i))
		if k == 0 && s.IntCol >= 0 {
			kind = 1
		} else if k == 1 && s.Filter && s.IntCol != 0 {
			kind = 2
		}
		recs[i] = DrawRec(t, s, fmt.Sprintf("%s%d", label, i), kind, o)
	}
	return recs
}

// ---------------------------------------------------------------------------------------------
// schema

type obj = map[string]interface{}

func (s Shape) recordXPathPrefix() string { return "" }

// SubXPath is the xpath from a record node to its sub-records.
func (s Shape) SubXPath() string {
	switch s.Format {
	case "json":
		return "sub/*"
	case "xml":
		return "sub"
	default:
		return "SUB"
	}
}

func (s Shape) finalOutputXPath() string {
	filter := ""
	if s.Filter && s.IntCol != 0 {
		filter = fmt.Sprintf("[not(starts-with(c0,'%s'))]", s.SkipToken())
		if strings.Contains(s.SkipToken(), "'") {
			filter = fmt.Sprintf("[not(starts-with(c0,\"%s\"))]", s.SkipToken())
		}
	}
	if s.Format == "xml" && filter != "" && s.QuoteInFilter {
		// attribute filter (decidable when the element starts) with a mixed-quote literal
		filter = `[not(@k="SK'P")]`
	}
	switch s.Format {
	case "json":
		if s.Envelope {
			return "/items/*" + filter
		}
		return "/*" + filter
	case "xml":
		base := "/root"
		if s.Envelope {
			base = "/root/body"
		}
		if s.Grouped {
			if filter != "" {
				return base + "/grp[@t='A']/rec"
			}
			return base + "/grp/rec"
		}
		if s.PosFilter {
			return base + "/rec[position() <= 1000000]"
		}
		if s.XMLMixed {
			return base + "/*" + filter
		}
		return base + "/rec" + filter
	default:
		if filter == "" {
			return ""
		}
		return "." + filter
	}
}

func (s Shape) transformDecls() obj {
	fields := obj{}
	for i := 0; i < s.NCols; i++ {
		f := obj{"xpath": colName(i)}
		if s.attrCol(i) {
			f = obj{"xpath": "c0/@a"}
		}
		if i == s.IntCol {
			f["type"] = "int"
		}
		fields[colName(i)] = f
	}
	decls := obj{}
	if s.HasSubs() {
		sf := obj{}
		for k := 0; k < s.NSub; k++ {
			sf[subName(k)] = obj{"xpath": subName(k)}
		}
		fields["subs"] = obj{"array": []interface{}{obj{"xpath": s.SubXPath(), "object": sf}}}
	}
	switch s.Xform {
	case 1:
		// rich: shared template at two cursors, custom funcs, const, identical declarations at
		// different positions, keep_empty_or_null / no_trim
		fields["up"] = obj{"custom_func": obj{"name": "upper", "args": []interface{}{obj{"xpath": "c0"}}}}
		fields["cat"] = obj{"custom_func": obj{"name": "concat", "args": []interface{}{
			obj{"xpath": "c0", "no_trim": true}, obj{"const": "|"}, obj{"xpath": colName(s.NCols - 1)}}}}
		fields["k"] = obj{"const": " fixed ", "no_trim": true}
		fields["t1"] = obj{"xpath": ".", "template": "tpl"}
		fields["nested"] = obj{"object": obj{"c0": obj{"xpath": "c0"}, "t2": obj{"template": "tpl"},
			"kept": obj{"xpath": "nosuch", "keep_empty_or_null": true}}}
		fields["arr"] = obj{"array": []interface{}{obj{"xpath": "c0"}, obj{"const": "z"}, obj{"xpath": "c0"}}}
		fields["id"] = obj{"custom_func": obj{"name": "uuidv3", "args": []interface{}{obj{"xpath": "c0", "no_trim": true}}}}
		decls["tpl"] = obj{"object": obj{"first": obj{"xpath": "c0"}, "low": obj{"custom_func": obj{"name": "lower",
			"args": []interface{}{obj{"xpath": colName(s.NCols - 1)}}}}}}
	case 2:
		fields["js"] = obj{"custom_func": obj{"name": "javascript", "args": []interface{}{
			obj{"const": "a + '/' + b.length"}, obj{"const": "a"}, obj{"xpath": "c0"}, obj{"const": "b"},
			obj{"xpath": colName(s.NCols - 1), "no_trim": true}}}}
		fields["jsn"] = obj{"custom_func": obj{"name": "javascript_with_context", "args": []interface{}{
			obj{"const": "JSON.stringify(JSON.parse(_node)).length + (typeof a === 'undefined' ? 0 : 1000)"}}}}
		fields["jsf"] = obj{"custom_func": obj{"name": "javascript", "args": []interface{}{
			obj{"const": "(function(){ if (a.indexOf('BOOM') === 0) { throw new Error('boom') } return a.length })()"},
			obj{"const": "a"}, obj{"xpath": "c0"}}}}
		// plain javascript must never see a _node (nor anything else) left behind in a pooled VM by an earlier call
		fields["jsa"] = obj{"custom_func": obj{"name": "javascript", "args": []interface{}{
			obj{"const": "(typeof _node === 'undefined' ? 'clean' : 'leak:' + _node) + (typeof x === 'undefined' ? '' : '/x:' + x)"}}}}
		fields["js2"] = obj{"custom_func": obj{"name": "javascript", "args": []interface{}{
			obj{"const": "typeof b === 'undefined' ? a.toUpperCase() : 'leak'"}, obj{"const": "a"}, obj{"xpath": "c0"}}}}
	case 4:
		// external properties: a plain one and one that supplies an xpath (callers must pass "tag" and "xp")
		fields["tag"] = obj{"external": "tag"}
		fields["viaext"] = obj{"xpath_dynamic": obj{"external": "xp"}}
		fields["viaext2"] = obj{"object": obj{"v": obj{"xpath_dynamic": obj{"external": "xp"}, "no_trim": true}}}
		// typed externals (callers must pass "num", an integer text, and "flag", a boolean text), one of them as a javascript argument
		fields["num"] = obj{"external": "num", "type": "int"}
		fields["flag"] = obj{"external": "flag", "type": "boolean"}
		fields["numjs"] = obj{"custom_func": obj{"name": "javascript", "args": []interface{}{
			obj{"const": "n + 1"}, obj{"const": "n"}, obj{"external": "num", "type": "int"}}}}
	case 3:
		// cache-sensitive flavour: textually identical declarations at different positions, xpath_dynamic,
		// javascript_with_context on the record and on its parent (which changes between records)
		last := colName(s.NCols - 1)
		fields["dyn"] = obj{"xpath_dynamic": obj{"custom_func": obj{"name": "concat", "args": []interface{}{obj{"const": "c"}, obj{"const": "0"}}}}}
		fields["dynobj"] = obj{"xpath_dynamic": obj{"const": "."}, "object": obj{"c0": obj{"xpath": "c0"}, "l": obj{"xpath": last}}}
		// an xpath computed from the record's data: differs from record to record and between concurrent transforms
		fields["dyndata"] = obj{"xpath_dynamic": obj{"custom_func": obj{"name": "javascript", "args": []interface{}{
			obj{"const": fmt.Sprintf("'c' + (a.length %% %d)", s.NCols)}, obj{"const": "a"}, obj{"xpath": "c0", "no_trim": true}}}}}
		fields["same"] = obj{"xpath": "c0"}
		fields["nest"] = obj{"object": obj{"same": obj{"xpath": "c0"}, "deeper": obj{"object": obj{"same": obj{"xpath": "c0"}}}}}
		fields["arr"] = obj{"array": []interface{}{obj{"xpath": "c0"}, obj{"xpath": last}, obj{"xpath": "c0"}}}
		fields["t1"] = obj{"template": "tpl"}
		fields["t2"] = obj{"xpath": ".", "template": "tpl"}
		fields["njs"] = obj{"custom_func": obj{"name": "javascript_with_context", "args": []interface{}{
			obj{"const": "JSON.stringify(JSON.parse(_node)).length + ':' + x"}, obj{"const": "x"}, obj{"xpath": "c0"}}}}
		fields["njs2"] = obj{"custom_func": obj{"name": "javascript_with_context", "args": []interface{}{
			obj{"const": "JSON.stringify(JSON.parse(_node)).length + ':' + x"}, obj{"const": "x"}, obj{"xpath": last}}}}
		// declarations evaluated on the record's parent, a node that outlives the record and whose content
		// (the current record as its last element child) changes from record to record
		fields["anc"] = obj{"xpath": "..", "object": obj{"lastc0": obj{"xpath": "*[last()]/c0"}, "l": obj{"xpath": "*[last()]/" + last}}}
		// a script that throws (error ignored) followed by a probe: nothing of the failed call may be left in a pooled VM
		fields["jthrow"] = obj{"custom_func": obj{"name": "javascript", "ignore_error": true, "args": []interface{}{
			obj{"const": "x.length + null.boom"}, obj{"const": "x"}, obj{"xpath": "c0", "no_trim": true}}}}
		fields["jz"] = obj{"custom_func": obj{"name": "javascript", "args": []interface{}{
			obj{"const": "typeof x === 'undefined' ? 'clean' : 'leak:' + x"}}}}
		// twins that differ in ignore_error only, the lenient one evaluated first (children run in key order): for a c0 of
		// 3, 7, 11, ... bytes the call fails - ignored by the first, failing the record in the second
		twin := func(ignore bool) obj {
			cf := obj{"name": "javascript", "args": []interface{}{
				obj{"const": "(function(){ if (x.length % 4 === 3) { throw new Error('len') } return x.length })()"}, obj{"const": "x"}, obj{"xpath": "c0", "no_trim": true}}}
			if ignore {
				cf["ignore_error"] = true
			}
			return obj{"custom_func": cf}
		}
		// a script that needs a deep, but bounded, call stack of 1100-1700 frames (resource limits must not differ between
		// pooled and fresh VMs; unbounded recursion would be "user-supplied JavaScript that itself loops")
		fields["jdeep"] = obj{"custom_func": obj{"name": "javascript", "args": []interface{}{
			obj{"const": "(function f(n){ return n ? 1 + f(n - 1) : 0 })(1100 + 150 * (x.length % 5))"}, obj{"const": "x"}, obj{"xpath": "c0", "no_trim": true}}}}
		// the same context script, with no argument but the script, on two different nodes of one record: the record and its
		// first column
		ctxLen := func() obj {
			return obj{"custom_func": obj{"name": "javascript_with_context", "args": []interface{}{obj{"const": "'len=' + _node.length"}}}}
		}
		fields["ctx0"] = ctxLen()
		fields["onc0"] = obj{"xpath": "c0", "object": obj{"ctx0": ctxLen()}}
		// two scripts that differ in white space inside a string literal only
		fields["ws1"] = obj{"custom_func": obj{"name": "javascript", "args": []interface{}{
			obj{"const": "x + '  ' + x.length"}, obj{"const": "x"}, obj{"xpath": "c0", "no_trim": true}}}}
		fields["ws2"] = obj{"custom_func": obj{"name": "javascript", "args": []interface{}{
			obj{"const": "x + ' ' + x.length"}, obj{"const": "x"}, obj{"xpath": "c0", "no_trim": true}}}}
		// an array over a union: document order, whatever IDs the (pooled) nodes carry
		fields["uni"] = obj{"array": []interface{}{obj{"xpath": "c0 | " + last + " | c0"}}}
		// copy of a node that outlives the record (its content changes from record to record)
		fields["anccopy"] = obj{"xpath": "..", "custom_func": obj{"name": "copy"}}
		// one template referenced from two places that differ in the reference-site xpath_dynamic only
		fields["td1"] = obj{"xpath_dynamic": obj{"const": "c0"}, "template": "tplv"}
		fields["td2"] = obj{"xpath_dynamic": obj{"const": last}, "template": "tplv"}
		decls["tplv"] = obj{"object": obj{"v": obj{"xpath": "."}}}
		fields["ie_a"] = twin(true)
		fields["ie_b"] = twin(false)
		fields["pjs"] = obj{"xpath": "..", "custom_func": obj{"name": "javascript_with_context", "args": []interface{}{
			obj{"const": "JSON.stringify(JSON.parse(_node)).length"}}}}
		decls["tpl"] = obj{"object": obj{"first": obj{"xpath": "c0"}, "js": obj{"custom_func": obj{"name": "javascript", "args": []interface{}{
			obj{"const": "v.length"}, obj{"const": "v"}, obj{"xpath": last, "no_trim": true}}}}}}
	}
	if s.HostZone {
		// date/time functions called without any time zone argument: the documented results name no zone of the host
		k := func(v string) obj { return obj{"const": v} }
		fields["hz1"] = obj{"custom_func": obj{"name": "epochToDateTimeRFC3339", "args": []interface{}{k("1234567890"), k("SECOND")}}}
		fields["hz2"] = obj{"custom_func": obj{"name": "dateTimeToRFC3339", "args": []interface{}{k("2020-01-02 03:04:05"), k(""), k("")}}}
		fields["hz3"] = obj{"custom_func": obj{"name": "dateTimeToEpoch", "args": []interface{}{k("2020-07-02 03:04:05"), k(""), k("SECOND")}}}
		fields["hz4"] = obj{"custom_func": obj{"name": "dateTimeToRFC3339", "args": []interface{}{k("2020-07-02T03:04:05Z"), k(""), k("")}}}
	}
	fo := obj{"object": fields}
	if xp := s.finalOutputXPath(); xp != "" {
		fo["xpath"] = xp
	}
	decls["FINAL_OUTPUT"] = fo
	return decls
}

func (s Shape) fileDecl() obj {
	switch s.Format {
	case "csv":
		cols := []interface{}{}
		for i := 0; i < s.NCols; i++ {
			if i == 1 {
				cols = append(cols, obj{"name": "col " + colName(i), "alias": colName(i)})
			} else {
				cols = append(cols, obj{"name": colName(i)})
			}
		}
		fd := obj{"delimiter": s.Delim, "columns": cols, "data_row_index": 1}
		if s.ReplaceQuotes {
			fd["replace_double_quotes"] = true
		}
		fd["data_row_index"] = 1 + s.Skip
		if s.Header {
			fd["header_row_index"] = s.Preamble + 1
			fd["data_row_index"] = s.Preamble + 2 + s.Skip
		}
		return fd
	case "csv2":
		switch s.Variant {
		case 0, 1:
			cols := []interface{}{}
			for i := 0; i < s.NCols; i++ {
				c := obj{"name": colName(i), "index": i + 1}
				if s.Variant == 1 {
					// odd columns live on the second line
					c["line_index"] = 1 + i%2
					c["index"] = i/2 + 1
				}
				cols = append(cols, c)
			}
			rec := obj{"name": "REC", "columns": cols, "is_target": true}
			if s.Variant == 1 {
				rec["rows"] = 2
			}
			fd := obj{"delimiter": s.Delim, "records": []interface{}{rec}}
			if s.ReplaceQuotes {
				fd["replace_double_quotes"] = true
			}
			return fd
		default:
			cols := []interface{}{}
			for i := 0; i < s.NCols; i++ {
				cols = append(cols, obj{"name": colName(i), "index": i + 2})
			}
			scols := []interface{}{}
			for k := 0; k < s.NSub; k++ {
				scols = append(scols, obj{"name": subName(k), "index": k + 2})
			}
			d := regexpQuote(s.Delim)
			fd := obj{"delimiter": s.Delim, "records": []interface{}{obj{
				"name": "REC", "header": "^R" + d, "is_target": true, "columns": cols,
				"child_records": []interface{}{obj{"name": "SUB", "header": "^S" + d, "columns": scols}},
			}}}
			if s.ReplaceQuotes {
				fd["replace_double_quotes"] = true
			}
			return fd
		}
	case "fixed-length":
		switch s.Variant {
		case 0, 1:
			cols := []interface{}{}
			pos := 1
			for i := 0; i < s.NCols; i++ {
				c := obj{"name": colName(i), "start_pos": pos, "length": s.Widths[i]}
				if s.Variant == 1 {
					if i%2 == 0 && s.FLSpaceMark {
						c["line_pattern"] = "^[A ]"
					} else if i%2 == 0 {
						c["line_pattern"] = "^A"
					} else {
						c["line_pattern"] = "^B"
					}
					c["start_pos"] = pos + 1
				}
				pos += s.Widths[i]
				cols = append(cols, c)
			}
			env := obj{"columns": cols}
			if s.Variant == 1 {
				env["by_rows"] = 2
			}
			return obj{"envelopes": []interface{}{env}}
		default:
			cols := []interface{}{}
			pos := 2
			for i := 0; i < s.NCols; i++ {
				cols = append(cols, obj{"name": colName(i), "start_pos": pos, "length": s.Widths[i], "line_pattern": "^R"})
				pos += s.Widths[i]
			}
			return obj{"envelopes": []interface{}{
				obj{"name": "HDR", "by_header_footer": obj{"header": "^H", "footer": "^H"}, "not_target": true,
					"columns": []interface{}{obj{"name": "h", "start_pos": 2, "length": 3}}},
				obj{"name": "REC", "by_header_footer": obj{"header": "^R", "footer": "^E"}, "columns": cols},
			}}
		}
	case "fixedlength2":
		switch s.Variant {
		case 0, 1:
			cols := []interface{}{}
			pos := 1
			for i := 0; i < s.NCols; i++ {
				c := obj{"name": colName(i), "start_pos": pos, "length": s.Widths[i]}
				if s.Variant == 1 {
					c["line_index"] = 1 + i%s.flRows()
				}
				pos += s.Widths[i]
				cols = append(cols, c)
			}
			env := obj{"name": "REC", "columns": cols, "is_target": true}
			if s.Variant == 1 {
				env["rows"] = s.flRows()
			}
			return obj{"envelopes": []interface{}{env}}
		default:
			cols := []interface{}{}
			pos := 2
			for i := 0; i < s.NCols; i++ {
				cols = append(cols, obj{"name": colName(i), "start_pos": pos, "length": s.Widths[i]})
				pos += s.Widths[i]
			}
			scols := []interface{}{}
			pos = 2
			for k := 0; k < s.NSub; k++ {
				scols = append(scols, obj{"name": subName(k), "start_pos": pos, "length": s.SubW[k]})
				pos += s.SubW[k]
			}
			return obj{"envelopes": []interface{}{obj{
				"name": "REC", "header": "^R", "is_target": true, "columns": cols,
				"child_envelopes": []interface{}{obj{"name": "SUB", "header": "^S", "columns": scols}},
			}}}
		}
	case "edi":
		elems := []interface{}{}
		for i := 0; i < s.NCols; i++ {
			e := obj{"name": colName(i), "index": i + 1}
			if s.EDI.Comp != "" && i == s.NCols-1 {
				// last column is read from component 2 of the element after the last plain one
				e = obj{"name": colName(i), "index": i + 1, "component_index": 2, "default": ""}
			} else {
				e["default"] = ""
			}
			elems = append(elems, e)
		}
		rec := obj{"name": "REC", "is_target": true, "min": 0, "max": -1, "elements": elems}
		if s.EDIRootRepeat && !s.Envelope {
			rec["max"] = 1
		}
		if s.HasSubs() {
			selems := []interface{}{}
			for k := 0; k < s.NSub; k++ {
				selems = append(selems, obj{"name": subName(k), "index": k + 1, "default": ""})
			}
			rec["child_segments"] = []interface{}{obj{"name": "SUB", "min": 0, "max": -1, "elements": selems}}
		}
		segs := []interface{}{rec}
		if s.Envelope {
			segs = []interface{}{obj{"name": "ISA", "elements": []interface{}{obj{"name": "sender", "index": 1}},
				"child_segments": []interface{}{rec, obj{"name": "IEA"}}}}
		}
		fd := obj{"segment_delimiter": s.EDI.Seg, "element_delimiter": s.EDI.Elem, "segment_declarations": segs}
		if s.EDI.Comp != "" {
			fd["component_delimiter"] = s.EDI.Comp
		}
		if s.EDI.Release != "" {
			fd["release_character"] = s.EDI.Release
		}
		if s.EDI.IgnCRLF {
			fd["ignore_crlf"] = true
		}
		return fd
	}
	return nil
}

func regexpQuote(s string) string {
	var b strings.Builder
	for _, r := range s {
		if strings.ContainsRune(`\.+*?()|[]{}^$`, r) {
			b.WriteByte('\\')
		}
		b.WriteRune(r)
	}
	return b.String()
}

// Schema renders the schema JSON text.
func (s Shape) Schema() string { return s.SchemaWith(s.transformDecls()) }

// FinalOutputXPath is the xpath the shape puts on FINAL_OUTPUT ("" when none).
func (s Shape) FinalOutputXPath() string { return s.finalOutputXPath() }

// SchemaWith renders the schema with caller-supplied transform_declarations (the caller is responsible
// for FINAL_OUTPUT and its xpath; see FinalOutputXPath).
func (s Shape) SchemaWith(transformDecls map[string]interface{}) string {
	ps := obj{"version": "omni.2.1", "file_format_type": s.Format}
	if s.Encoding != "" {
		ps["encoding"] = s.Encoding
	}
	doc := obj{"parser_settings": ps, "transform_declarations": transformDecls}
	if fd := s.fileDecl(); fd != nil {
		if s.FlatGroup {
			// all declarations become the members of one repeatable group (max omitted = unbounded)
			switch s.Format {
			case "csv2":
				if recs, ok := fd["records"]; ok {
					fd["records"] = []interface{}{obj{"name": "GRP", "type": "record_group", "child_records": recs}}
				}
			case "fixedlength2":
				if envs, ok := fd["envelopes"]; ok {
					fd["envelopes"] = []interface{}{obj{"name": "GRP", "type": "envelope_group", "child_envelopes": envs}}
				}
			}
		}
		doc["file_declaration"] = fd
	}
	b, err := json.Marshal(doc)
	if err != nil {
		panic(err)
	}
	return string(b)
}

// ---------------------------------------------------------------------------------------------
// rendering

func (s Shape) eol() string {
	if s.CRLF {
		return "\r\n"
	}
	return "\n"
}

func csvField(v, delim string) string {
	if v == "" {
		return `""`
	}
	if strings.ContainsAny(v, "\"\r\n") || strings.Contains(v, delim) || strings.HasPrefix(v, " ") {
		return `"` + strings.ReplaceAll(v, `"`, `""`) + `"`
	}
	return v
}

func csvLine(fields []string, delim string) string {
	out := make([]string, len(fields))
	for i, f := range fields {
		out[i] = csvField(f, delim)
	}
	return strings.Join(out, delim)
}

func pad(v string, w int) string {
	n := utf8.RuneCountInString(v)
	if n > w {
		return string([]rune(v)[:w])
	}
	return v + strings.Repeat(" ", w-n)
}

func (s Shape) ediEscape(v string) string {
	if s.EDI.Release == "" {
		return v
	}
	specials := s.EDI.Seg + s.EDI.Elem + s.EDI.Comp + s.EDI.Rep + s.EDI.Release
	var b strings.Builder
	for _, r := range v {
		if strings.ContainsRune(specials, r) {
			b.WriteString(s.EDI.Release)
		}
		b.WriteRune(r)
	}
	return b.String()
}

// xmlCharData writes v as the character data of an element in one of the XMLText modes.
func xmlCharData(v string, mode int) string {
	if mode == 0 {
		return xmlEscape(v)
	}
	cdata := func(x string) string {
		if strings.Contains(x, "]]>") || strings.ContainsAny(x, "\r") {
			return xmlEscape(x)
		}
		return "<![CDATA[" + x + "]]>"
	}
	cut := len(v) / 2
	for cut > 0 && !utf8.RuneStart(v[cut]) {
		cut--
	}
	a, b := v[:cut], v[cut:]
	switch mode {
	case 1:
		return cdata(v)
	case 2:
		return xmlEscape(a) + cdata(b)
	case 3:
		return xmlEscape(a) + "<!-- c -->" + xmlEscape(b)
	case 4:
		return cdata(a) + cdata(b)
	default:
		return xmlEscape(a) + "<?p i?>" + xmlEscape(b)
	}
}

// shapeEscapeAttr escapes a value for a double-quoted attribute (white space as character references: attribute value
// normalisation would turn tabs and line breaks into blanks).
func shapeEscapeAttr(v string) string {
	return strings.NewReplacer("\t", "&#9;", "\n", "&#10;").Replace(xmlEscape(v))
}

func xmlEscape(v string) string {
	var b strings.Builder
	for _, r := range v {
		switch r {
		case '<':
			b.WriteString("&lt;")
		case '>':
			b.WriteString("&gt;")
		case '&':
			b.WriteString("&amp;")
		case '"':
			b.WriteString("&quot;")
		case '\r':
			b.WriteString("&#13;")
		default:
			b.WriteRune(r)
		}
	}
	return b.String()
}

// RenderParts renders the input as (prologue, one chunk per record, epilogue); concatenated they
// are the input. Metamorphic properties use the parts to know where records start.
func (s Shape) RenderParts(recs []Rec) (pro string, parts []string, epi string) {
	eol := s.eol()
	switch s.Format {
	case "csv":
		if s.Header {
			for i := 0; i < s.Preamble; i++ {
				pro += fmt.Sprintf("junk line %d%s", i, eol)
			}
			names := make([]string, s.NCols)
			for i := range names {
				names[i] = colName(i)
				if i == 1 {
					names[i] = " col " + colName(i) + " "
				}
			}
			pro += csvLine(names, s.Delim) + eol
		}
		for i := 0; i < s.Skip; i++ {
			pro += fmt.Sprintf("skipped row %d%s", i, eol)
		}
		for _, r := range recs {
			if r.RawLine != "" {
				parts = append(parts, r.RawLine+eol)
				continue
			}
			parts = append(parts, csvLine(r.Vals, s.Delim)+eol)
		}
	case "csv2":
		for _, r := range recs {
			switch s.Variant {
			case 0:
				parts = append(parts, csvLine(r.Vals, s.Delim)+eol)
			case 1:
				var l1, l2 []string
				for i, v := range r.Vals {
					if i%2 == 0 {
						l1 = append(l1, v)
					} else {
						l2 = append(l2, v)
					}
				}
				if len(l2) == 0 {
					l2 = []string{"-"}
				}
				parts = append(parts, csvLine(l1, s.Delim)+eol+csvLine(l2, s.Delim)+eol)
			default:
				p := csvLine(append([]string{"R"}, r.Vals...), s.Delim) + eol
				for _, sub := range r.Subs {
					p += csvLine(append([]string{"S"}, sub...), s.Delim) + eol
				}
				parts = append(parts, p)
			}
		}
	case "fixed-length", "fixedlength2":
		line := func(prefix string, vals []string, ws []int) string {
			var b strings.Builder
			b.WriteString(prefix)
			for i, v := range vals {
				b.WriteString(pad(v, ws[i]))
			}
			return b.String()
		}
		if s.Format == "fixed-length" && s.Variant == 2 {
			pro = "Habc" + eol
		}
		for _, r := range recs {
			switch {
			case s.Variant == 0:
				l := line("", r.Vals, s.Widths)
				if strings.TrimRight(l, " ") == "" {
					l = l + "." // a blank line would be skipped as empty by design
				}
				parts = append(parts, l+eol)
			case s.Variant == 1 && s.Format == "fixed-length":
				// line A carries even columns, line B odd columns, each at its declared position
				la, lb := []rune("A"), []rune("B")
				if r.BlankA && s.FLSpaceMark {
					la = []rune(" ")
				}
				pos := 1
				for i, v := range r.Vals {
					tgt := &la
					if i%2 == 1 {
						tgt = &lb
					}
					for len(*tgt) < pos {
						*tgt = append(*tgt, ' ')
					}
					*tgt = append(*tgt, []rune(pad(v, s.Widths[i]))...)
					pos += s.Widths[i]
				}
				parts = append(parts, string(la)+eol+string(lb)+eol)
			case s.Variant == 1:
				l := line("", r.Vals, s.Widths)
				p := ""
				for k := 0; k < s.flRows(); k++ {
					if k > 0 && s.FLBlank {
						p += eol
					}
					// every row carries all columns, marked with its row number so that a mixed-up row shows
					p += l + fmt.Sprint(k+1) + eol
				}
				parts = append(parts, p)
			case s.Format == "fixed-length":
				parts = append(parts, line("R", r.Vals, s.Widths)+eol+"Xmid"+eol+"E"+eol)
			default:
				p := line("R", r.Vals, s.Widths) + eol
				for _, sub := range r.Subs {
					p += line("S", sub, s.SubW) + eol
				}
				parts = append(parts, p)
			}
		}
	case "edi":
		d := s.EDI
		segEnd := d.Seg
		if d.IgnCRLF {
			segEnd += d.EOL
		}
		if s.Envelope {
			pro = "ISA" + d.Elem + "snd" + segEnd
			epi = "IEA" + d.Elem + "1" + segEnd
		}
		for _, r := range recs {
			var b strings.Builder
			b.WriteString("REC")
			for i, v := range r.Vals {
				b.WriteString(d.Elem)
				if d.Comp != "" && i == s.NCols-1 {
					b.WriteString("k" + d.Comp + s.ediEscape(v))
				} else {
					b.WriteString(s.ediEscape(v))
				}
			}
			b.WriteString(segEnd)
			for _, sub := range r.Subs {
				b.WriteString("SUB")
				for _, v := range sub {
					b.WriteString(d.Elem + s.ediEscape(v))
				}
				b.WriteString(segEnd)
			}
			parts = append(parts, b.String())
		}
	case "json":
		if s.Envelope {
			pro = `{"meta":{"k":"v","n":[1,2]},"items":[`
			epi = `],"tail":true}` + eol
		} else {
			pro, epi = "[", "]"+eol
		}
		if s.JSONKeyed {
			pro = strings.TrimSuffix(pro, "[") + "{"
			epi = "}" + strings.TrimPrefix(epi, "]")
		}
		for i, r := range recs {
			m := obj{}
			for j, v := range r.Vals {
				if j == s.IntCol && v != "x" {
					m[colName(j)] = json.Number(v)
				} else {
					m[colName(j)] = v
				}
			}
			if s.HasSubs() {
				subs := []interface{}{}
				for _, sub := range r.Subs {
					sm := obj{}
					for k, v := range sub {
						sm[subName(k)] = v
					}
					subs = append(subs, sm)
				}
				m["sub"] = subs
			}
			var buf bytes.Buffer
			enc := json.NewEncoder(&buf)
			enc.SetEscapeHTML(false)
			_ = enc.Encode(m)
			p := strings.TrimRight(buf.String(), "\n")
			if s.JSONKeyed {
				p = fmt.Sprintf(`"k%07d":`, i) + p
			}
			if i < len(recs)-1 {
				p += ","
			}
			parts = append(parts, p+eol)
		}
	case "xml":
		rootNS := ""
		switch s.XMLNS {
		case 1, 2:
			rootNS = ` xmlns="urn:verif:d"`
		case 3:
			rootNS = ` xmlns="urn:verif:d" xmlns:u1="urn:verif:u1" xmlns:u2="urn:verif:u2"`
		}
		pro = "<root" + rootNS + ">"
		epi = "</root>" + eol
		if s.Envelope {
			bodyNS := ""
			if s.XMLNS == 4 {
				bodyNS = ` xmlns="urn:verif:d"`
			}
			pro = `<?xml version="1.0" encoding="UTF-8"?>` + eol + `<root` + rootNS + `><head a="1">h</head><body` + bodyNS + `>`
			epi = "</body><foot/></root>" + eol
		}
		if s.XMLDecl != "" {
			pro = `<?xml version="1.0" encoding="` + s.XMLDecl + `"?>` + strings.TrimPrefix(pro, `<?xml version="1.0" encoding="UTF-8"?>`)
		}
		xmlEscape := func(v string) string { return xmlCharData(v, s.XMLText) }
		for _, r := range recs {
			var b strings.Builder
			recNS := ""
			recName := "rec"
			if s.XMLMixed && !s.Grouped && !s.PosFilter && len(r.Vals) > 0 && len(r.Vals[0])%2 == 1 {
				recName = "itm"
			}
			// (a function of the record, not of its position: C10 permutes and splits record lists)
			if len(r.Vals) > 0 && len(r.Vals[0])%2 == 0 {
				switch s.XMLNS {
				case 2:
					recNS = ` xmlns="urn:verif:d"`
				case 3:
					recNS = ` xmlns:u1="urn:verif:u1"`
				}
			}
			if s.XMLNS == 4 && !s.Envelope {
				recNS = ` xmlns="urn:verif:d"`
			}
			if s.Filter && s.IntCol != 0 && s.QuoteInFilter {
				k := "ok"
				if strings.HasPrefix(r.Vals[0], s.SkipToken()) {
					k = "SK'P"
				}
				b.WriteString(`<` + recName + recNS + ` k="` + k + `">`)
			} else {
				b.WriteString("<" + recName + recNS + ">")
			}
			for j, v := range r.Vals {
				if s.attrCol(j) {
					continue
				}
				open := "<" + colName(j) + ">"
				if j == 0 && s.attrCol(len(r.Vals)-1) {
					open = "<" + colName(j) + ` a="` + shapeEscapeAttr(r.Vals[len(r.Vals)-1]) + `">`
				}
				fmt.Fprintf(&b, "%s%s</%s>", open, xmlEscape(v), colName(j))
				if j == 0 && r.Dup {
					fmt.Fprintf(&b, "%s%s</%s>", open, xmlEscape(v), colName(j))
				}
			}
			for _, sub := range r.Subs {
				b.WriteString("<sub>")
				for k, v := range sub {
					fmt.Fprintf(&b, "<%s>%s</%s>", subName(k), xmlEscape(v), subName(k))
				}
				b.WriteString("</sub>")
			}
			b.WriteString("</" + recName + ">")
			if s.Grouped {
				grp := "A"
				if s.Filter && s.IntCol != 0 && strings.HasPrefix(r.Vals[0], s.SkipToken()) {
					grp = "B"
				}
				parts = append(parts, `<grp t="`+grp+`">`+b.String()+"</grp>")
				continue
			}
			parts = append(parts, b.String())
		}
	}
	return
}

// Render renders the complete input (UTF-8, without BOM).
func (s Shape) Render(recs []Rec) []byte {
	pro, parts, epi := s.RenderParts(recs)
	return []byte(pro + strings.Join(parts, "") + epi)
}
