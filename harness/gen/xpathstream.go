package gen

// XPaths of the "stream-target class" (DESIGN.md §5 C04): what a schema author writes as the xpath of
// FINAL_OUTPUT for the xml / json formats. An absolute or '//' location path of element steps (names or
// '*'), with at most ONE predicate, on the final step, and that predicate inspects nothing but the
// candidate node itself: its name, attributes, text and descendants. No positional predicates, no
// last(), no reverse or sibling axes, no predicates on non-final steps.

import (
	"strings"

	"pgregory.net/rapid"
)

// StreamXPath is a drawn target xpath, split the way the property talks about it.
type StreamXPath struct {
	Path string `json:"path"` // location path without the final predicate
	Pred string `json:"pred"` // "" or the predicate, brackets included
	// Lead / Trail: white space around the expression (legal in XPath; schema authors leave it in)
	Lead  string `json:"lead,omitempty"`
	Trail string `json:"trail,omitempty"`
}

// String is the xpath as handed to the reader / written into FINAL_OUTPUT.
func (x StreamXPath) String() string { return x.Lead + x.Path + x.Pred + x.Trail }

// StreamXPathOpts tunes DrawStreamXPath.
type StreamXPathOpts struct {
	JSON bool // JSON flavour: array elements are nameless (only '*' reaches them)
	// Numeric admits predicates that compare node text with a number literal (JSON flavour). The xpath
	// engine panics when such a comparison meets text that is not a number, so they only make sense for
	// documents whose candidates all have numeric string-values.
	Numeric bool
	Names   []string // element names / keys (default a b c r)
}

// XMLStreamPreds are the XML predicates of the class that DrawStreamXPath samples from.
var XMLStreamPreds = []string{
	"[@k='1']", "[@k='1']", "[@k='0']", "[@k]", "[not(@k)]", "[@k!='1']", "[@k>0]", "[@k=\"2\"]",
	"[b]", "[a]", "[c]", "[not(b)]", "[not(a)]", "[*]", "[not(*)]",
	"[b='x']", "[a='x']", "[.='x']", "[.='xx']", "[.=\"x\"]", "[b/c='x']", "[a/b]",
	"[count(b)>1]", "[count(*)>1]", "[count(*)=1]", "[count(a)=1]",
	"[contains(.,'x')]", "[contains(.,'y')]", "[starts-with(.,'x')]", "[string-length(.)>1]", "[normalize-space(.)='x']",
	"[a/@k='1']", "[*/@k='1']", "[.//c]", "[.//a]", "[not(.//a)]", "[.//@k='1']", "[.//b='x']",
	"[text()='x']", "[text()]", "[not(text())]",
	"[b[@k='1']]", "[b[c]]", "[a[.='x']]",
	"[*[@k='1']]", "[a[b]]", "[count(b[c])>0]", "[not(b[@k='1'])]", "[a[@k='0' and b]]", "[*[*]]", "[b[@k=\"1\"]]", "[a[not(*)]]",
	"[@k='1' and b]", "[@k='1' or b]", "[a and not(b)]", "[@k='1' or .='x']",
	"[@k='1' or b='x']", "[@k='0' and b='x']", "[@k='0' and .='x']", "[@k='1' and .='x']", "[@k='0' or a]", "[@k='0' or .='x']", "[@k='0' or .//c]",
	"[@k='1' and not(b)]", "[@k!='0' or count(*)>1]",
	"[.!=']']", "[.!='[']", "[name()='a']", "[local-name()!='b']",
}

// JSONStreamPreds are the JSON predicates of the class.
var JSONStreamPreds = []string{
	"[.='x']", "[.='x']", "[.='1']", "[.!='x']", "[.='true']",
	"[b]", "[a]", "[c]", "[not(b)]", "[not(a)]", "[*]", "[not(*)]",
	"[b='x']", "[a='x']", "[a='1']", "[b/c='x']", "[a/b]", "[a/*]",
	"[count(*)>1]", "[count(*)=0]", "[count(*)=1]", "[count(b)>1]",
	"[contains(.,'x')]", "[contains(.,'1')]", "[starts-with(.,'x')]", "[string-length(.)>1]",
	"[.//c]", "[.//a]", "[not(.//a)]", "[.//b='x']", "[.//*='x']",
	"[*='x']", "[*/*]",
	"[b[c]]", "[a[.='x']]", "[*[a]]", "[*[*]]", "[a[b]]", "[count(*[a])>0]", "[not(b[c])]", "[a[not(*)]]",
	"[b and a]", "[a or c]", "[a and not(b)]", "[a='1' or .='x']",
	"[.!=']']", "[text()]", "[not(text())]",
}

// JSONNumericStreamPreds compare with number literals (see StreamXPathOpts.Numeric).
var JSONNumericStreamPreds = []string{
	"[. < 4]", "[.<4]", "[. >= 2]", "[.>4]", "[.=1]", "[.!=2]", "[a=1]", "[a<3]", "[b>2]", "[*>3]", "[*=1]", "[a=1 or b=2]",
	"[.<4 and a]", "[a/*>1]", "[.//b<3]", "[. <= 12]", "[.>20]",
}

func streamStep(t *rapid.T, name string, wildProb int) string {
	if name == "" || strings.ContainsAny(name, " /*[]@'\"") {
		return "*"
	}
	if rapid.IntRange(0, 9).Draw(t, "wild") < wildProb {
		return "*"
	}
	return name
}

// StreamTarget is a node of the document an xpath is meant for: its name chain (top-most element first,
// "" for a JSON array element) and, optionally, predicates of the class that are known to hold for it.
type StreamTarget struct {
	Chain     []string
	TruePreds []string
}

// DrawStreamXPath draws a target xpath. When targets are given, most paths are derived from the chain
// of one of them so that they select something, and about half of the predicates are taken from that
// target's TruePreds, so that the predicate accepts at least one node on the path (and, in documents
// with repeated names, typically rejects others).
func DrawStreamXPath(t *rapid.T, targets []StreamTarget, o StreamXPathOpts) StreamXPath {
	names := o.Names
	if len(names) == 0 {
		names = []string{"a", "b", "c", "r"}
	}
	wild := 2 // chance in 10 that a named step is written as '*'
	if o.JSON {
		wild = 4 // JSON objects cannot repeat a key: several matches need '*' (array elements, any key)
	}
	var x StreamXPath
	var truePreds []string
	if len(targets) > 0 && rapid.IntRange(0, 9).Draw(t, "aimed") < 9 {
		// most elements of a tree sit deep, where a path rarely has a second match: choose the depth
		// first (shallow preferred), then a node of that depth (two draws, because rapid's integer
		// draws favour the ends of the range)
		want := rapid.SampledFrom([]int{2, 2, 2, 2, 3, 3, 3, 2, 4, 5, 6, 1}).Draw(t, "aimDepth")
		if o.JSON {
			want-- // JSON chains start below the (nameless) top-level value
			if want < 1 {
				want = 1
			}
		}
		var idx []int
		for _, d := range []int{want, want + 1, want - 1, want + 2, want - 2} {
			for j, tg := range targets {
				if d >= 1 && len(tg.Chain) == d {
					idx = append(idx, j)
				}
			}
			if len(idx) > 0 {
				break
			}
		}
		if len(idx) == 0 {
			for j := range targets {
				idx = append(idx, j)
			}
		}
		// prefer a node whose chain already occurred earlier in the document: then the path has at
		// least two matches and the one the predicate is aimed at is not the first
		if rapid.IntRange(0, 9).Draw(t, "preferRepeat") < 7 {
			seen := map[string]bool{}
			isIdx := map[int]bool{}
			for _, j := range idx {
				isIdx[j] = true
			}
			var rep []int
			for j, tg := range targets {
				key := strings.Join(tg.Chain, "\x00")
				if seen[key] && isIdx[j] {
					rep = append(rep, j)
				}
				seen[key] = true
			}
			if len(rep) > 0 {
				idx = rep
			}
		}
		k := rapid.IntRange(0, len(idx)-1).Draw(t, "chainA")
		if rapid.Bool().Draw(t, "chainMix") {
			k = (k + rapid.IntRange(0, len(idx)-1).Draw(t, "chainB")) % len(idx)
		}
		i := idx[k]
		ch := targets[i].Chain
		truePreds = targets[i].TruePreds
		switch style := rapid.SampledFrom([]int{0, 0, 0, 0, 0, 3, 3, 3, 7, 7}).Draw(t, "pathStyle"); {
		case style < 3: // absolute
			var sb strings.Builder
			for _, n := range ch {
				sb.WriteString("/" + streamStep(t, n, wild))
			}
			x.Path = sb.String()
		case style < 7: // '//' + the last one or two steps
			k := 1
			if len(ch) > 1 && rapid.IntRange(0, 9).Draw(t, "twoSteps") < 3 {
				k = 2
			}
			var steps []string
			for _, n := range ch[len(ch)-k:] {
				steps = append(steps, streamStep(t, n, 1)) // '//*' makes the root the only candidate: keep it rare
			}
			x.Path = "//" + strings.Join(steps, "/")
		default: // absolute prefix, '//' gap, last step; or '//' between two steps
			last := streamStep(t, ch[len(ch)-1], wild)
			if len(ch) == 1 {
				x.Path = "//" + last
				break
			}
			cut := rapid.IntRange(1, len(ch)-1).Draw(t, "gapAt")
			var sb strings.Builder
			if rapid.Bool().Draw(t, "gapAbsolute") {
				for _, n := range ch[:cut] {
					sb.WriteString("/" + streamStep(t, n, wild))
				}
			} else {
				sb.WriteString("//" + streamStep(t, ch[cut-1], wild))
			}
			sb.WriteString("//" + last)
			x.Path = sb.String()
		}
	} else {
		a := rapid.SampledFrom(names).Draw(t, "n1")
		b := rapid.SampledFrom(names).Draw(t, "n2")
		x.Path = rapid.SampledFrom([]string{"/r/" + a, "//" + a, "/r/*", "/*", "/*/*", "//*", "//*/*", "/r/" + a + "/" + b,
			"//" + a + "/" + b, "/r//" + a, "//" + a + "//" + b, "/*/" + a, "/*//" + a, "//" + a + "/*", "/" + a, "/*/*/*",
			"//" + a + "//*"}).Draw(t, "fixedPath")
	}
	if rapid.IntRange(0, 9).Draw(t, "hasPred") < 9 {
		if len(truePreds) > 0 && rapid.IntRange(0, 9).Draw(t, "aimedPred") < 7 {
			x.Pred = rapid.SampledFrom(truePreds).Draw(t, "pred")
		} else if o.JSON && o.Numeric && rapid.IntRange(0, 9).Draw(t, "numericPred") < 7 {
			x.Pred = rapid.SampledFrom(JSONNumericStreamPreds).Draw(t, "pred")
		} else if o.JSON {
			x.Pred = rapid.SampledFrom(JSONStreamPreds).Draw(t, "pred")
		} else {
			x.Pred = rapid.SampledFrom(XMLStreamPreds).Draw(t, "pred")
		}
	}
	// the same location path in another notation (unabbreviated axes, white space): equal by the XPath grammar
	switch rapid.IntRange(0, 15).Draw(t, "notation") {
	case 0:
		x.Path = strings.ReplaceAll(x.Path, "//", "/descendant::")
	case 1:
		x.Path = strings.ReplaceAll(x.Path, "//", "/descendant-or-self::node()/")
	case 2:
		steps := strings.Split(x.Path, "/")
		for i, st := range steps {
			if st != "" && !strings.Contains(st, "::") {
				steps[i] = "child::" + st
			}
		}
		x.Path = strings.Join(steps, "/")
	case 3:
		x.Trail = rapid.SampledFrom([]string{" ", "  ", "\t", "\n"}).Draw(t, "trail")
	case 4:
		x.Lead = rapid.SampledFrom([]string{" ", "\n "}).Draw(t, "lead")
	case 5:
		x.Lead, x.Trail = " ", " "
	}
	return x
}
