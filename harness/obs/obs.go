// Package obs is the glue between a property (generator + oracle) and the driver (/verif/check):
// it runs regressions, drives rapid, records what the generator actually produced, classifies
// disagreements against the committed known-findings list, serialises the failing case for
// replay, and writes a per-shard summary that the driver merges into evidence/<id>.json.
package obs

import (
	"crypto/sha256"
	"encoding/binary"
	"encoding/json"
	"fmt"
	"os"
	"path/filepath"
	"runtime/debug"
	"sort"
	"strings"
	"sync"
	"testing"

	"pgregory.net/rapid"
)

// Result is what an oracle says about one case.
type Result struct {
	// Violation is non-empty when the property does not hold on this case.
	Violation string
	// Known is the id of a known-finding matcher that recognised the disagreement (the case then
	// counts as a known-finding hit, not as a violation).
	Known string
	// Excluded is non-empty when the case lies outside the property's domain (counted, not judged).
	Excluded string
	// NonTrivial says whether the case is non-trivial by the property's stated rule.
	NonTrivial bool
	// Classes are labels for the class histogram.
	Classes []string
	// Sample optionally replaces the case itself in evidence samples.
	Sample interface{}
}

// OK builds a passing result.
func OK(nonTrivial bool, classes ...string) Result {
	return Result{NonTrivial: nonTrivial, Classes: classes}
}

// Violationf builds a failing result.
func Violationf(format string, args ...interface{}) Result {
	return Result{Violation: fmt.Sprintf(format, args...)}
}

type knownEntry struct {
	Property string `json:"property"`
	ID       string `json:"id"`
	Status   string `json:"status"`
	Matcher  string `json:"matcher"`
}

var (
	knownOnce sync.Once
	knownOpen = map[string]bool{}
)

func loadKnown() {
	p := os.Getenv("VERIF_KNOWN")
	if p == "" {
		return
	}
	b, err := os.ReadFile(p)
	if err != nil {
		return
	}
	var doc struct {
		Findings []knownEntry `json:"findings"`
	}
	if json.Unmarshal(b, &doc) != nil {
		return
	}
	for _, e := range doc.Findings {
		if e.Status == "open" && e.Matcher != "" {
			knownOpen[e.Matcher] = true
		}
	}
}

// KnownOpen reports whether the committed known-findings file has an *open* entry that enables the
// named matcher. Fixed entries enable nothing.
func KnownOpen(matcher string) bool {
	knownOnce.Do(loadKnown)
	return knownOpen[matcher]
}

type summary struct {
	Property     string         `json:"property"`
	Shard        string         `json:"shard"`
	Seed         uint64         `json:"seed"`
	Evaluations  int            `json:"evaluations"`
	NonTrivial   int            `json:"nontrivial_evaluations"`
	Classes      map[string]int `json:"classes"`
	Known        map[string]int `json:"known_hits"`
	Excluded     map[string]int `json:"excluded"`
	Samples      []interface{}  `json:"samples"`
	Regressions  int            `json:"regressions_replayed"`
	Violation    string         `json:"violation,omitempty"`
	FailFile     string         `json:"fail_file,omitempty"`
	Completed    bool           `json:"completed"`
	Extra        map[string]int `json:"extra,omitempty"`
	hashes       map[uint64]struct{}
	seenSample   map[string]bool
	mu           sync.Mutex
	lastFailCase []byte
}

func digest(b []byte) uint64 {
	h := sha256.Sum256(b)
	return binary.LittleEndian.Uint64(h[:8])
}

func truncateSample(v interface{}) interface{} {
	b, err := json.Marshal(v)
	if err != nil {
		return fmt.Sprintf("%v", v)
	}
	if len(b) <= 1500 {
		var out interface{}
		_ = json.Unmarshal(b, &out)
		return out
	}
	return string(b[:1500]) + "...(truncated)"
}

func (s *summary) record(caseJSON []byte, c interface{}, r Result) {
	s.mu.Lock()
	defer s.mu.Unlock()
	if r.Excluded != "" {
		s.Excluded[r.Excluded]++
		return
	}
	s.Evaluations++
	for _, cl := range r.Classes {
		s.Classes[cl]++
	}
	if r.Known != "" {
		s.Known[r.Known]++
	}
	if r.NonTrivial {
		s.NonTrivial++
		s.hashes[digest(caseJSON)] = struct{}{}
		// keep a handful of samples, preferring different class signatures
		sig := strings.Join(r.Classes, ",")
		if len(s.Samples) < 5 && !s.seenSample[sig] {
			s.seenSample[sig] = true
			smp := r.Sample
			if smp == nil {
				smp = c
			}
			s.Samples = append(s.Samples, truncateSample(smp))
		}
	}
}

// Extra lets a property add named counters to the evidence (e.g. "reads_after_terminal").
var (
	extraMu sync.Mutex
	extra   = map[string]int{}
)

// Count adds n to a named evidence counter.
func Count(name string, n int) {
	extraMu.Lock()
	extra[name] += n
	extraMu.Unlock()
}

func (s *summary) write(outDir string) {
	if outDir == "" {
		return
	}
	s.mu.Lock()
	defer s.mu.Unlock()
	extraMu.Lock()
	s.Extra = map[string]int{}
	for k, v := range extra {
		s.Extra[k] = v
	}
	extraMu.Unlock()
	_ = os.MkdirAll(outDir, 0o755)
	base := filepath.Join(outDir, fmt.Sprintf("%s.%s", s.Property, s.Shard))
	b, _ := json.MarshalIndent(s, "", " ")
	_ = os.WriteFile(base+".summary.json", b, 0o644)
	hs := make([]uint64, 0, len(s.hashes))
	for h := range s.hashes {
		hs = append(hs, h)
	}
	sort.Slice(hs, func(i, j int) bool { return hs[i] < hs[j] })
	buf := make([]byte, 8*len(hs))
	for i, h := range hs {
		binary.LittleEndian.PutUint64(buf[8*i:], h)
	}
	_ = os.WriteFile(base+".hashes.bin", buf, 0o644)
}

// safeCheck runs the oracle; a panic that escapes it (from the code under test or the harness)
// is reported as a violation with the stack attached.
func safeCheck[C any](check func(C) Result, c C) (r Result) {
	defer func() {
		if p := recover(); p != nil {
			r = Result{Violation: fmt.Sprintf("panic: %v\n%s", p, CleanStack(debug.Stack()))}
		}
	}()
	return check(c)
}

// CleanStack strips everything from a stack trace that differs between two runs of the same case
// (goroutine numbers, argument values, pc offsets): rapid only shrinks failures whose message
// reproduces byte for byte.
func CleanStack(st []byte) string {
	var b strings.Builder
	n := 0
	for _, line := range strings.Split(string(st), "\n") {
		if strings.HasPrefix(line, "goroutine ") || line == "" {
			continue
		}
		if strings.HasPrefix(line, "\t") {
			if i := strings.LastIndex(line, " +0x"); i >= 0 {
				line = line[:i]
			}
		} else if i := strings.LastIndex(line, "("); i >= 0 && strings.HasSuffix(line, ")") {
			line = line[:i]
		}
		if strings.HasPrefix(line, "created by ") {
			if i := strings.Index(line, " in goroutine"); i >= 0 {
				line = line[:i]
			}
		}
		b.WriteString(line)
		b.WriteByte('\n')
		n++
		if n > 60 {
			b.WriteString("...\n")
			break
		}
	}
	return b.String()
}

type failDoc struct {
	Property  string          `json:"property"`
	Violation string          `json:"violation"`
	Case      json.RawMessage `json:"case"`
}

// Run is the single entry point of every property test.
//
//	gen   draws a JSON-serialisable case from rapid (all randomness lives here)
//	check is a pure function of the case: it runs the real code and the oracle
//
// Environment (set by /verif/check): VERIF_OUT (summary directory), VERIF_SHARD, VERIF_REPLAY
// (replay one saved case and nothing else), VERIF_REGRESS (directory of promoted regression cases,
// replayed before generation), VERIF_KNOWN (known_findings.json).
func Run[C any](t *testing.T, id string, gen func(*rapid.T) C, check func(C) Result) {
	outDir := os.Getenv("VERIF_OUT")
	s := &summary{Property: id, Shard: os.Getenv("VERIF_SHARD"), Classes: map[string]int{}, Known: map[string]int{},
		Excluded: map[string]int{}, hashes: map[uint64]struct{}{}, seenSample: map[string]bool{}}
	if s.Shard == "" {
		s.Shard = "0"
	}
	defer s.write(outDir)

	fail := func(caseJSON []byte, r Result) string {
		doc := failDoc{Property: id, Violation: r.Violation, Case: caseJSON}
		b, _ := json.MarshalIndent(doc, "", " ")
		if outDir == "" {
			return ""
		}
		_ = os.MkdirAll(outDir, 0o755)
		p := filepath.Join(outDir, fmt.Sprintf("%s.%s.fail.json", id, s.Shard))
		_ = os.WriteFile(p, b, 0o644)
		return p
	}

	runFile := func(p string) (Result, []byte, error) {
		b, err := os.ReadFile(p)
		if err != nil {
			return Result{}, nil, err
		}
		var doc failDoc
		if err := json.Unmarshal(b, &doc); err != nil {
			return Result{}, nil, err
		}
		raw := doc.Case
		if len(raw) == 0 {
			raw = b
		}
		var c C
		if err := json.Unmarshal(raw, &c); err != nil {
			return Result{}, nil, err
		}
		defer watchCase(p)()
		return safeCheck(check, c), raw, nil
	}

	if rp := os.Getenv("VERIF_REPLAY"); rp != "" {
		r, raw, err := runFile(rp)
		if err != nil {
			t.Fatalf("REPLAY-ERROR %v", err)
		}
		s.Evaluations = 1
		switch {
		case r.Violation != "":
			s.Violation = r.Violation
			s.FailFile = fail(raw, r)
			fmt.Printf("REPLAY-VIOLATION property=%s\n%s\n", id, r.Violation)
			t.Fatalf("replay reproduces a violation")
		case r.Known != "":
			s.Known[r.Known]++
			fmt.Printf("REPLAY-KNOWN property=%s matcher=%s\n", id, r.Known)
		default:
			fmt.Printf("REPLAY-OK property=%s\n", id)
		}
		s.Completed = true
		return
	}

	if rd := os.Getenv("VERIF_REGRESS"); rd != "" && (s.Shard == "0") {
		files, _ := filepath.Glob(filepath.Join(rd, "*.json"))
		sort.Strings(files)
		for _, f := range files {
			r, raw, err := runFile(f)
			if err != nil {
				t.Fatalf("regression file %s unreadable: %v", f, err)
			}
			s.Regressions++
			if r.Known != "" {
				s.Known[r.Known]++
			}
			if r.Violation != "" {
				s.Violation = fmt.Sprintf("regression %s: %s", filepath.Base(f), r.Violation)
				s.FailFile = fail(raw, r)
				t.Fatalf("regression case %s fails: %s", f, r.Violation)
			}
		}
	}

	var lastFail string
	var lastViolation string
	noteCurrent := os.Getenv("VERIF_NOTE_CURRENT") != ""
	rapid.Check(t, func(rt *rapid.T) {
		c := gen(rt)
		caseJSON, err := json.Marshal(c)
		if err != nil {
			rt.Fatalf("case not serialisable: %v", err)
		}
		cur := ""
		if noteCurrent {
			cur = NoteCurrent(id, c)
		}
		done := watchCase(cur)
		r := safeCheck(check, c)
		done()
		s.record(caseJSON, c, r)
		if r.Violation != "" {
			// rapid re-runs the minimal case last, so the last write is the shrunk one. (Recorded here:
			// when rapid.Check fails it ends the test goroutine and nothing after it runs.)
			lastViolation = r.Violation
			lastFail = fail(caseJSON, r)
			s.mu.Lock()
			s.Violation, s.FailFile = lastViolation, lastFail
			s.mu.Unlock()
			rt.Fatalf("%s", r.Violation)
		}
	})
	s.Completed = !t.Failed()
}


// NoteCurrent saves the case that is about to run as <VERIF_OUT>/<id>.<shard>.current.json (in replay
// format). Properties whose violations can kill the process (race detector with halt_on_error, the
// C03 watchdog) call it first, so that the driver still has a replayable case.
func NoteCurrent(id string, c interface{}) string {
	outDir := os.Getenv("VERIF_OUT")
	if outDir == "" {
		return ""
	}
	shard := os.Getenv("VERIF_SHARD")
	if shard == "" {
		shard = "0"
	}
	raw, err := json.Marshal(c)
	if err != nil {
		return ""
	}
	p := filepath.Join(outDir, fmt.Sprintf("%s.%s.current.json", id, shard))
	noteMu.Lock()
	defer noteMu.Unlock()
	f := noteFiles[p]
	if f == nil {
		_ = os.MkdirAll(outDir, 0o755)
		f, err = os.OpenFile(p, os.O_RDWR|os.O_CREATE|os.O_TRUNC, 0o644)
		if err != nil {
			return ""
		}
		noteFiles[p] = f
	}
	// one compact line, rewritten in place (kept open: this runs once per case)
	doc := append(append([]byte(`{"property":"`+id+`","violation":"process died while this case was running (see the attached log)","case":`), raw...), '}', '\n')
	if _, err := f.WriteAt(doc, 0); err == nil {
		_ = f.Truncate(int64(len(doc)))
	}
	return p
}

var (
	noteMu    sync.Mutex
	noteFiles = map[string]*os.File{}
)

// Fuzz hands a property (generator + oracle) to Go's native coverage-guided fuzzer through
// rapid.MakeFuzz: the fuzzer's bytes drive the rapid generators, so the same structured cases and
// the same oracle are used, but the search is coverage-guided and uses all cores (thorough tier).
// A violation is saved as <VERIF_OUT>/<id>.fuzz.fail.json in replay format before failing.
func Fuzz[C any](f *testing.F, id string, gen func(*rapid.T) C, check func(C) Result) {
	outDir := os.Getenv("VERIF_OUT")
	f.Fuzz(rapid.MakeFuzz(func(rt *rapid.T) {
		c := gen(rt)
		r := safeCheck(check, c)
		if r.Violation == "" {
			return
		}
		if outDir != "" {
			raw, _ := json.Marshal(c)
			b, _ := json.MarshalIndent(failDoc{Property: id, Violation: r.Violation, Case: raw}, "", " ")
			_ = os.MkdirAll(outDir, 0o755)
			tmp := filepath.Join(outDir, fmt.Sprintf(".%s.fuzz.%d.tmp", id, os.Getpid()))
			if os.WriteFile(tmp, b, 0o644) == nil {
				_ = os.Rename(tmp, filepath.Join(outDir, id+".fuzz.fail.json"))
			}
		}
		rt.Fatalf("%s", r.Violation)
	}))
}
