package obs

import (
	"fmt"
	"os"
	"strconv"
	"sync"
	"sync/atomic"
	"syscall"
	"time"
)

// A call into the library that never returns produces no result at all: every property here judges results, and each
// oracle's reference run terminates, so a case that spins is a violation of the property being checked (and of C03).
// Such a call cannot be stopped from outside, so a watchdog reports the case in progress and leaves the process:
// the driver turns the "HANG-VIOLATION file=..." line into the VIOLATION line with that file as replay.
//
// A case counts as hanging only when BOTH limits are exceeded: wall time (VERIF_CASE_WALL, default 120 s) and CPU time
// burnt by this process since the case began (VERIF_CASE_CPU, default 45 s) - ordinary cases take milliseconds, the
// largest ones (C17 with 20 000 records, C16's enumerations) a few seconds. Wall time alone (a starved machine, a child
// process that does not come back) is reported as INCONCLUSIVE after four times the wall limit (exit 4).

type wdState struct {
	file  string
	start time.Time
	cpu0  time.Duration
}

var (
	wdOnce sync.Once
	wdCur  atomic.Pointer[wdState]
)

func processCPU() time.Duration {
	var ru syscall.Rusage
	if err := syscall.Getrusage(syscall.RUSAGE_SELF, &ru); err != nil {
		return 0
	}
	return time.Duration(ru.Utime.Nano() + ru.Stime.Nano())
}

func envSeconds(name string, def int) time.Duration {
	if v, err := strconv.Atoi(os.Getenv(name)); err == nil && v > 0 {
		return time.Duration(v) * time.Second
	}
	return time.Duration(def) * time.Second
}

// watchCase marks the start of a case whose replayable description is in file; the returned func marks its end.
func watchCase(file string) func() {
	if file == "" {
		return func() {}
	}
	wdOnce.Do(func() {
		wall, cpu := envSeconds("VERIF_CASE_WALL", 120), envSeconds("VERIF_CASE_CPU", 45)
		go func() {
			for {
				time.Sleep(time.Second)
				st := wdCur.Load()
				if st == nil {
					continue
				}
				el := time.Since(st.start)
				if el < wall {
					continue
				}
				used := processCPU() - st.cpu0
				if used >= cpu {
					fmt.Printf("\nHANG-VIOLATION file=%s\n", st.file)
					fmt.Printf("a case did not finish within %v wall time while the process burnt %v CPU: a call into the library does not return\n", el.Round(time.Second), used.Round(time.Second))
					os.Stdout.Sync()
					os.Exit(3)
				}
				if el >= 4*wall {
					fmt.Printf("\nINCONCLUSIVE-STARVED: case exceeded %v wall time with only %v CPU\n", el.Round(time.Second), used.Round(time.Second))
					os.Stdout.Sync()
					os.Exit(4)
				}
			}
		}()
	})
	wdCur.Store(&wdState{file: file, start: time.Now(), cpu0: processCPU()})
	return func() { wdCur.Store(nil) }
}
