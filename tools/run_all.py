#!/usr/bin/env python3
"""Runs every registered check (tier from argv[1], default quick) and validates MANIFEST and evidence files."""
import json, os, subprocess, sys, time
sys.path.insert(0, '/opt/veriftools/pyvenv/lib/python3.11/site-packages')
import jsonschema
VERIF = os.path.dirname(os.path.dirname(os.path.abspath(__file__)))
tier = sys.argv[1] if len(sys.argv) > 1 else "quick"
only = sys.argv[2:]
man = json.load(open(os.path.join(VERIF, "MANIFEST.json")))
jsonschema.validate(man, json.load(open("/root/.vp/MANIFEST.schema.json")))
evs = json.load(open("/root/.vp/EVIDENCE.schema.json"))
bad = 0
for c in man["checks"]:
    pid = c["property_id"]
    if only and pid not in only:
        continue
    cmd = c["quick_cmd"] if tier == "quick" else c["thorough_cmd"]
    t0 = time.time()
    p = subprocess.run(cmd, shell=True, cwd=VERIF, stdout=subprocess.PIPE, stderr=subprocess.PIPE, text=True)
    dt = time.time() - t0
    viol = [l for l in p.stdout.splitlines() if l.startswith("VIOLATION")]
    known = [l for l in p.stdout.splitlines() if l.startswith("KNOWN-FINDING")]
    status = "ok"
    try:
        jsonschema.validate(json.load(open(os.path.join(VERIF, c["evidence_file"]))), evs)
    except Exception as e:
        status = "EVIDENCE-INVALID: " + str(e)[:100]
    if p.returncode != 0 or viol:
        status = f"rc={p.returncode} {viol} " + p.stderr[-300:]
        bad += 1
    print(f"{pid} {dt:6.1f}s known={len(known)} {status}", flush=True)
sys.exit(1 if bad else 0)
