#!/usr/bin/env python3
"""Independent confirmation of a seeded change, in a scratch worktree outside /repo and /verif:
   usage: verify_seed.py <patch.diff> <demo_test.go> <package dir relative to repo root>
   1. patch applies and the tree builds; 2. the repository's full test suite passes with the patch;
   3. the demonstration fails with the patch; 4. the demonstration passes on the clean tree."""
import os, shutil, subprocess, sys, tempfile
patch, demo, pkgdir = os.path.abspath(sys.argv[1]), os.path.abspath(sys.argv[2]), sys.argv[3]
env = dict(os.environ, GOFLAGS="-mod=mod", GOPROXY="off", GOSUMDB="off", GOTOOLCHAIN="local")
wt = tempfile.mkdtemp(prefix="vs-", dir="/tmp")
os.rmdir(wt)
def run(cmd, cwd=wt, timeout=1500):
    p = subprocess.run(cmd, cwd=cwd, env=env, shell=True, stdout=subprocess.PIPE, stderr=subprocess.STDOUT, text=True, timeout=timeout)
    return p.returncode, p.stdout
import re
names = re.findall(r"^func (Test\w+)\(", open(demo).read(), re.M)
runre = "'^(" + "|".join(names) + ")$'" if names else "."
ok = True
try:
    rc, out = run(f"git -C /repo worktree add --detach {wt}", cwd="/")
    assert rc == 0, out
    rc, out = run(f"git apply {patch}")
    print("1. patch applies:", rc == 0); ok &= rc == 0
    rc, out = run("go build ./... ")
    print("   builds:", rc == 0); ok &= rc == 0
    rc, out = run("go test -vet=off -count=1 ./... 2>&1 | grep -v 'no test files'")
    suite_ok = rc == 0 and "FAIL" not in out
    print("2. existing suite passes with the patch:", suite_ok); ok &= suite_ok
    if not suite_ok: print(out[-1500:])
    dst = os.path.join(wt, pkgdir, os.path.basename(demo))
    shutil.copy(demo, dst)
    rc, out = run(f"go test -vet=off -count=1 -race -run {runre} ./{pkgdir} 2>&1 | tail -30")
    if "FAIL" not in out:  # sync.Pool behaves differently under -race: try the plain build too
        rc, out = run(f"go test -vet=off -count=1 -run {runre} ./{pkgdir} 2>&1 | tail -30")
    demo_fails = "FAIL" in out
    print("3. demonstration fails with the patch:", demo_fails); ok &= demo_fails
    if demo_fails: print("   ", "\n    ".join(out.strip().splitlines()[:12]))
    run(f"git apply -R {patch}")
    rc, out = run(f"go test -vet=off -count=1 -race -run {runre} ./{pkgdir} 2>&1 | tail -30")
    demo_passes = "FAIL" not in out and rc == 0
    print("4. demonstration passes on the clean tree:", demo_passes); ok &= demo_passes
    if not demo_passes: print(out[-1500:])
finally:
    subprocess.run(f"git -C /repo worktree remove --force {wt}", shell=True, stdout=subprocess.DEVNULL, stderr=subprocess.DEVNULL)
    shutil.rmtree(wt, ignore_errors=True)
print("CONFIRMED" if ok else "NOT CONFIRMED")
sys.exit(0 if ok else 1)
