#!/usr/bin/env python3
"""Regenerates /verif/MANIFEST.json from checks_config.py (single source of truth for the registered checks)."""
import json
import os
import subprocess
import sys

VERIF = os.path.dirname(os.path.dirname(os.path.abspath(__file__)))
sys.path.insert(0, VERIF)
from checks_config import CHECKS, META, NOT_BUILT  # noqa: E402

hook_commits = []
try:
    out = subprocess.run(["git", "-C", "/repo", "log", "--format=%H %s"], stdout=subprocess.PIPE, text=True).stdout
    for line in out.splitlines():
        h, _, subj = line.partition(" ")
        if subj.startswith("verif-hooks:"):
            hook_commits.append(h)
except Exception:
    pass

props = [json.loads(l)["id"] for l in open(os.path.join(VERIF, "properties.jsonl"))]
checks = []
for pid in props:
    if pid not in CHECKS:
        continue
    c = CHECKS[pid]
    m = META[pid]
    checks.append({
        "property_id": pid,
        "quick_cmd": f"./check {pid} --tier quick",
        "thorough_cmd": f"./check {pid} --tier thorough",
        "evidence_file": f"evidence/{pid}.json",
        "replay_cmd_template": f"./check {pid} --replay {{path}}",
        "engine": "rapid-harness",
        "level_claimed": {"category": c.get("level", "exploration"), "text": m["level_text"], "design_ref": m["design_ref"]},
        "level_note": m["level_note"],
        "technique": m["technique"],
    })
manifest = {
    "version": 1,
    "setup_cmd": "./check --setup",
    "hooks": {
        "guard": "verif",
        "enable": "go test -tags verif (the harness module replaces github.com/jf-tech/omniparser => /repo and always builds with -tags verif)",
        "baseline_off_cmd": "cd /repo && GOFLAGS=-mod=mod go test -json -vet=off -count=1 -timeout 25m ./...",
        "source_commits": hook_commits,
        "add_only": True,
    },
    "engines": [{"name": "rapid-harness", "path": "harness", "serves_properties": [c["property_id"] for c in checks],
                 "kind_free_text": "Go module 'verifharness' (pgregory.net/rapid v1.3.0 properties, one generator + pure oracle per "
                                   "property, native go fuzz targets in the thorough tier) driven by the Python script ./check, which "
                                   "rebuilds the test binary from /repo's working tree on every run, shards seeds over processes, merges "
                                   "evidence and applies known_findings.json"}],
    "checks": checks,
    "not_applicable": [{"property_id": p, "reason": NOT_BUILT.get(p, "check not built yet in this session; see DESIGN.md for the planned oracle")}
                       for p in props if p not in CHECKS],
    "notes": "All checks: exit 0 = held on everything explored (KNOWN-FINDING lines for entries of known_findings.json that still "
             "reproduce), exit 1 = VIOLATION line, exit 2 = inconclusive (build failure, budget exhausted, degenerate generator). "
             "VERIF_SEED selects the rapid seed (0 is remapped to 1).",
}
with open(os.path.join(VERIF, "MANIFEST.json"), "w") as f:
    json.dump(manifest, f, indent=1)
    f.write("\n")
print("MANIFEST.json:", len(checks), "checks,", len(manifest["not_applicable"]), "not_applicable")
