#!/usr/bin/env python3
"""import_seed.py <CNN> <A|B> <demo package dir> "<needs text>"  - verifies /tmp/seed-out/<CNN>/<X>.patch.diff with
tools/verify_seed.py and, if confirmed, stores it as /verif/seeded/<CNN>-<X>/ (patch.diff, demo, meta.json, notes.md)."""
import json, os, shutil, subprocess, sys
VERIF = os.path.dirname(os.path.dirname(os.path.abspath(__file__)))
pid, x, pkgdir, needs = sys.argv[1:5]
src = os.environ.get("SEED_SRC", "/tmp/seed-out") + f"/{pid}"
patch = f"{src}/{x}.patch.diff"
demo = f"{src}/demo_{pid}_{x}_test.go"
p = subprocess.run([os.path.join(VERIF, "tools/verify_seed.py"), patch, demo, pkgdir], stdout=subprocess.PIPE, stderr=subprocess.STDOUT, text=True)
print(p.stdout)
if p.returncode != 0:
    sys.exit("not confirmed - not imported")
dst = os.path.join(VERIF, "seeded", f"{pid}-{x}")
os.makedirs(dst, exist_ok=True)
shutil.copy(patch, os.path.join(dst, "patch.diff"))
shutil.copy(demo, os.path.join(dst, os.path.basename(demo)))
if os.path.exists(f"{src}/notes.md"):
    shutil.copy(f"{src}/notes.md", os.path.join(dst, "notes.md"))
json.dump({"property": pid, "origin": "fresh sub-agent given only the property text and its own worktree",
           "needs": needs, "demo": os.path.basename(demo), "demo_package_dir": pkgdir,
           "confirmed_by": "tools/verify_seed.py in a scratch worktree: patch applies and builds; full existing suite passes with the patch; "
                           "demonstration fails with the patch and passes on the clean tree (go test -race)",
           "verify_output": p.stdout.strip().splitlines()[:8]},
          open(os.path.join(dst, "meta.json"), "w"), indent=1)
print("imported", dst)
